#!/bin/sh
# development aid: tools/try_mutant.sh <repo-or-worktree-with-the-change> "C16 C04 C14"  -> exit code per check
WT=$1; shift
for c in $1; do
  VERIF_REPO=$WT ./run $c --tier ${2:-quick} > /tmp/try.$c.$$ 2>&1; rc=$?
  echo "$c exit=$rc $(grep ' tier=' /tmp/try.$c.$$ | cut -c1-160)"
  grep -m3 -E 'VIOLATION|INCONCLUSIVE' /tmp/try.$c.$$
  rm -f /tmp/try.$c.$$
done
