#!/usr/bin/env python3
"""Development aid: turn `./run Cxx --dump` SIG lines (stdin) into candidate known_findings.txt entries (stdout).
Entries are reviewed by hand before they are committed; nothing here runs as part of a check."""
import collections
import json
import re
import sys

prop = sys.argv[1]
note = sys.argv[2] if len(sys.argv) > 2 else ''
LISTABLE = ('case', 'word')
DROP = ('ops', 'symbols', 'shape')
groups = collections.OrderedDict()
for line in sys.stdin:
    if not line.startswith('SIG '):
        continue
    sig = json.loads(line[4:])
    for d in DROP:
        sig.pop(d, None)
    lst = next((k for k in LISTABLE if k in sig and sig[k] not in ('>core',)), None)
    key = json.dumps({k: v for k, v in sig.items() if k != lst}, sort_keys=True)
    groups.setdefault(key, (lst, []))
    if lst:
        groups[key][1].append(sig[lst])
seen = collections.Counter()
for key, (lst, vals) in groups.items():
    m = json.loads(key)
    if 'failed' in m:
        m['failed'] = {'subset_of': m['failed']}
    if lst:
        m[lst] = sorted(set(vals))
    slug = re.sub(r'[^a-z0-9]+', '-', ('%s-%s-%s' % (m.get('type', ''), m.get('kind', ''), m.get('mech', m.get('layer', '')))).lower()).strip('-')
    seen[slug] += 1
    if seen[slug] > 1:
        slug += '-%d' % seen[slug]
    what = '%s: %s' % (m.get('type'), m.get('kind'))
    if m.get('mech'):
        what += ' (%s)' % m['mech']
    if m.get('site'):
        what += ' at %s' % m['site']
    if lst:
        what += ' on %d listed %ss e.g. %s' % (len(m[lst]), lst, m[lst][0] or '<empty>')
    if note:
        what += ' -- ' + note
    print('finding property=%s id=%s match=%s what=%s' % (prop, slug, json.dumps(m, sort_keys=True), what))
