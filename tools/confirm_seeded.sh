#!/bin/sh
# development aid: tools/confirm_seeded.sh <dir with patch.diff + demo.py>  -> confirms in a fresh scratch worktree of /repo
D=$1; W=$(mktemp -d /tmp/confirm.XXXXXX); rmdir $W
git -C /repo worktree add -q --detach $W HEAD || exit 2
cd $W
PYTHONPATH=$W /venv/bin/python $D/demo.py > /tmp/confirm.out 2>&1; before=$?
git apply $D/patch.diff || { echo "PATCH DOES NOT APPLY"; git -C /repo worktree remove --force $W; exit 2; }
tests=$(PYTHONPATH=$W /venv/bin/python -m pytest -q -p no:cacheprovider 2>&1 | tail -1)
PYTHONPATH=$W /venv/bin/python $D/demo.py > /tmp/confirm.out 2>&1; after=$?
cd /; git -C /repo worktree remove --force $W
echo "demo_without_change_exit=$before demo_with_change_exit=$after tests_with_change='$tests'"
