#!/bin/sh
# development aid: tools/sweep.sh "C01 C06" "1 2 3" quick  -> prints unmatched signatures per check/seed
for c in $1; do for s in $2; do
  VERIF_SEED=$s ./run $c --tier ${3:-quick} --dump > /tmp/sweep.$c.$s.$$ 2>&1
  echo "== $c seed=$s tier=${3:-quick}: $(grep ' tier=' /tmp/sweep.$c.$s.$$)"
  grep -E '^SIG|INCONCLUSIVE|worker error' /tmp/sweep.$c.$s.$$ | sort | uniq
  rm -f /tmp/sweep.$c.$s.$$
done; done
