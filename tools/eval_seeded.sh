#!/bin/sh
# development aid: tools/eval_seeded.sh seeded/S1-C10 "C10 C19" [tier]
# applies the seeded change in a scratch worktree of /repo (outside /repo and /verif), runs the checks against it, removes it
D=$(cd $1 && pwd); W=$(mktemp -d /tmp/evalseed.XXXXXX); rmdir $W
git -C /repo worktree add -q --detach $W HEAD || exit 2
git -C $W apply $D/patch.diff || { echo "PATCH DOES NOT APPLY"; git -C /repo worktree remove --force $W; exit 2; }
cd /verif
for c in $2; do
  VERIF_REPO=$W ./run $c --tier ${3:-quick} > /tmp/evs.$c.$$ 2>&1; rc=$?
  echo "$(basename $D) $c exit=$rc $(grep ' tier=' /tmp/evs.$c.$$ | sed 's/.*known=/known=/' | cut -c1-80)"
  rm -f /tmp/evs.$c.$$
done
git -C /repo worktree remove --force $W
