#!/usr/bin/env python3
"""Development aid: regenerates the seeded-change table in DESIGN.md (between the SEEDED-TABLE markers) from seeded/*/meta.json."""
import glob, json, os
V = os.path.dirname(os.path.dirname(os.path.abspath(__file__)))
rows = []
for d in sorted(glob.glob(os.path.join(V, 'seeded', '*', 'meta.json'))):
    m = json.load(open(d))
    missed = ', '.join(m['checks_that_missed_it_when_first_run']) or '—'
    if m.get('strengthening_made'):
        missed += ' → ' + m['strengthening_made']
    rows.append('| %s | %s | %s | %s | %s |' % (m['id'], m['breaks_property'], m['needs_to_manifest'].replace('|', '/'),
                                             ', '.join(m['checks_that_report_it_quick_tier']), missed.replace('|', '/')))
p = os.path.join(V, 'DESIGN.md')
s = open(p).read()
a = s.index('<!-- SEEDED-TABLE-BEGIN -->') + len('<!-- SEEDED-TABLE-BEGIN -->\n')
b = s.index('<!-- SEEDED-TABLE-END -->')
open(p, 'w').write(s[:a] + '\n'.join(rows) + '\n' + s[b:])
print(len(rows), 'rows')
