#!/usr/bin/env python3
"""Writes /verif/MANIFEST.json from the table below (kept in one place so it stays consistent)."""
import json
import os

V = os.path.dirname(os.path.dirname(os.path.abspath(__file__)))
BASELINE = "cd /repo && /venv/bin/python -m pytest -ra -q -p no:cacheprovider --timeout=900 --continue-on-collection-errors"

CHECKS = {
 'C01': dict(cat='exploration', tech='output validator (reference DFA) on every to_string return over exhaustive small histories + seeded hostile histories',
   text='Every normal return of to_string() observed over an exhaustive core of short histories (all <=3 additions, all <=1-2 additions + one other operation, both intelligent_choice values) and seeded hostile histories (including the xsd_check setter switched off and on around an edit, and nested documents with an incomplete checked node smuggled past its parent) on all 94 content models is validated against an independent DFA of the schema. Held on the executions observed; exhaustive only inside the stated core.',
   note='trusts the reference DFAs built from /verif/ref (self-tested; cross-checked against the library templates by C03); children are unchecked minimal instances', ref='7 C01'),
 'C02': dict(cat='exploration', tech='API recorder; oracle = the supplied valid word (reference DFA); exhaustive short words + transition cover + pumped walks',
   text='All words of each of the 94 reference languages up to length 2 (3/4 thorough), one word per DFA edge, seeded pumped walks and long runs (every distinct shortest cycle repeated to ~70/160/400 symbols) are supplied left to right; acceptance, kept order (by identity) and final check are observed. Exhaustive inside the length bound.',
   note='trusts the reference DFAs; parents get required attributes from the reference table', ref='7 C02'),
 'C03': dict(cat='exploration', tech='inspection of live classes after import; oracle = reference model; content models compared as automata (product construction, exact)',
   text='Complete enumeration of the finite translation: 441 element names / 480 declarations, 228 complex types, 45 attribute groups, 27 model groups, 151+ simple types and the loaded schema copies are compared with the independent reference model; the language each per-instance container declares is compared with the reference DFA by exact product construction. exhaustive: true.',
   note='decides the translation (declared languages, tables, bindings), not whether the matcher dynamically accepts exactly that language (C01/C02/C12)', ref='7 C03'),
 'C04': dict(cat='exploration', tech='API recorder over the full (class x declared attribute x route) cross product + dictionary model for sequences; oracle = reference attribute tables and lexical validator',
   text='Every declared (class, attribute) pair (2096) is driven through constructor keyword, dot assignment and the parser with certified valid and invalid values; stored key, read-back, serialised name/value, removal by None, undeclared names, enforcement of required attributes and seeded set/overwrite/remove sequences are observed.',
   note='validity of a value is judged on lexical forms by the reference validator; the float battery lives in C05', ref='7 C04'),
 'C05': dict(cat='exploration', tech='API recorder over (simple type x lexical form x Python spelling x route) + float/bool/non-finite battery; oracle = reference lexical validator in both directions',
   text='Every simple type is crossed with a pool of several hundred lexical forms (all enumeration literals of all types, boundaries, pattern positives and near misses, whitespace variants) offered as str/int/float through the type classes, a carrying element and a carrying attribute; every acceptance is judged on the emitted text, every reference-valid normalised form on acceptance; every class without character content is offered text.',
   note='direction (b) demands acceptance only if every natural spelling is refused; built-ins modelled from the XSD datatypes spec and from xml.xsd', ref='7 C05'),
 'C08': dict(cat='exploration', tech='infoset comparator over write()/to_string() output vs parse_musicxml(...).to_string(), two round trips; oracle = xml.etree infosets + reference types for numeric tolerance',
   text='Reference-grammar documents (per element name and whole scores) are built through the API, emitted, re-parsed, compared as infosets (decimal spelling of decimal-typed content tolerated only), round-tripped a second time for byte identity, and parsed integer-typed values are checked to stay int; large scores (70 KB - 1 MB) dense in multi-byte characters are re-written with padding that makes a character straddle every power-of-two offset from 64 KiB.',
   note='documents the builder refuses are inconclusive (counted in evidence), not violations', ref='7 C08'),
 'C09': dict(cat='exploration', tech='parse_musicxml recorder + infoset equality on library-independent certified-valid text, containment checker on mutated text; failing documents localised and shrunk',
   text='XML text generated without the library from the reference grammar (all attribute forms incl. xml:/xlink:/name=, unusual numeric spellings), real exports, and structure-aware mutations: valid input must load and re-serialise to the same infoset; on any input a returning parser must not have dropped an element, attribute, text or tail - judged on to_string() and on to_string(intelligent_choice=True); every content type additionally with its valid words of up to five children in every order.',
   note='surrounding whitespace of string content treated as insignificant (lenient); reference validator certifies validity', ref='7 C09'),
 'C06': dict(cat='exploration', tech='shadow model + invariants evaluated at every public-call boundary (incl. raise path) + exactly-once output count',
   text='After every operation of every explored history both child views are compared (by identity) with each other and with a sequential shadow model fed by API results only; parents of live and removed children and the per-child count in every serialisation are checked; long histories (~300 children, late replace / remove) and children offered to classes without content model are included.',
   note='verdicts use public API only; shadow model is 15 lines', ref='7 C06'),
 'C07': dict(cat='exploration', tech='API recorder; oracle = sub-multiset search in the reference DFA after every successful addition',
   text='After every successful addition (add_child or xml_* shortcut) in every explored history the multiset of children is checked to be a sub-multiset of some word of the reference language (exact BFS).',
   note='trusts the reference DFAs', ref='7 C07'),
 'C10': dict(cat='exploration', tech='in-place snapshots around raising calls + differential twin without the failed operations (views, verdict, acceptance vector)',
   text='Every raising call in every explored history is bracketed by snapshots of both views, attributes and value; the history is then replayed without the failed operations and all observables, the status of each later operation and the acceptance vector over the whole child alphabet are compared; refused offers of already attached children (own or held by another element) must leave receiver, holder and parent link unchanged.',
   note='library raises only (no injected faults); observables through public API', ref='7 C10'),
 'C11': dict(cat='exploration', tech='differential twin: fresh element given only the survivors (verdict/text, order, acceptance vector)',
   text='Every history with removals whose operations all succeed is compared with a fresh element to which only the surviving children were added in the same relative order.',
   note='a twin that refuses a survivor is inconclusive (counted), that is C12 territory', ref='7 C11'),
 'C12': dict(cat='exploration', tech='API recorder; oracles = unique-arrangement enumeration and compatibility (sub-multiset) search in the reference DFA; all permutations of short unique multisets',
   text='All permutations (<=120, sampled beyond) of every multiset from words <=4 that has exactly one reference arrangement are added to a fresh element: acceptance, the arrangement, insertion order of same-named children (by identity) and the final check are observed; every rejected addition after accepted additions only is judged by the compatibility oracle. Exhaustive over permutations inside the bound.',
   note='trusts the reference DFAs', ref='7 C12'),
 'C13': dict(cat='exploration', tech='snapshots of instance A around every operation on instance B, solo-replay twin, pristine forked-child fingerprints of templates and fresh-instance behaviour, object-graph disjointness walk',
   text='Interleavings of 2-4 hostile histories over instances of one class (plus deep copies) in one process: every other instance must be unchanged after each operation and equal to a solo replay at the end; container graphs must be pairwise disjoint and disjoint from the shared template; template and fresh-instance behaviour fingerprints must equal those of a pristine forked child; class and message of refused calls on fresh elements must equal those of a pristine interpreter.',
   note='pristine fingerprints are recomputed on every run from the current tree', ref='7 C13'),
 'C14': dict(cat='exploration', tech='text equality of original vs deepcopy, snapshots around the copy, lock-step xsd_check walk, cross-visibility of later mutations',
   text='Reference-grammar trees built through the API or the parser and perturbed after construction (late-set / overwritten / removed attributes, changed values, xsd_check off on random nodes) are deep-copied; copy and original must serialise identically (or refuse identically), the original must be untouched, flags preserved, and mutations of either must not show in the other.',
   note='trees the builder refuses are skipped and counted', ref='7 C14'),
 'C15': dict(cat='exploration', tech='differential twin across the two API surfaces (shortcut vs explicit), step-by-step comparison',
   text='Every container class x every schema child runs a fixed read/set/replace/remove script through xml_* shortcuts and through add_child/replace_child/remove/value_; every complex class x every attribute compares keyword vs dot assignment and dot reads; seeded mixed sequences are replayed on both surfaces.',
   note='explicit translation = the one the README documents', ref='7 C15'),
 'C16': dict(cat='exploration', tech='xml.etree recovery of XML-Char strings in every text / string attribute position, repeated-call and subtree equality, differential twin without the serialisation calls',
   text='A battery plus seeded strings over the XML Char range are placed in every text and string-typed attribute position; well-formedness, exact recovery, determinism and subtree-vs-parent equality are checked; histories with serialisations at every position are compared with the same histories without them; nested documents serialised between mutations are compared with a never-serialised twin; int / float texts must not depend on equal values of the other kind serialised earlier.',
   note='xml.etree is the standard parser; only accepted strings are judged', ref='7 C16'),
 'C17': dict(cat='fault_enumeration', tech='fault enumeration: every node failing in turn x prior destination states; exception injected at every library LINE event inside write() (sys.monitoring); audit hook on open; subprocesses under ASCII/emulated Latin-1/cp1252 defaults; EncodingWarning as error; strace (thorough)',
   text='Every node of generated valid scores is made to fail its check in turn and write() is called for each prior state of the destination (bytes compared); a private exception is raised at every library line executed inside write() before the text exists; successful writes are compared byte-for-byte with declaration + to_string() in UTF-8; the import/write/parse scenario is repeated under each default encoding.',
   note='Latin-1/cp1252 defaults are emulated (only C/POSIX/C.utf8 locales exist in the image); faults after the text exists are out of scope', ref='7 C17'),
 'C18': dict(cat='exploration', tech='differential twin checked vs unchecked + exception classifier',
   text='Unchecked instances of every class get arbitrary children (own/foreign names, long runs), removals and replacements: nothing may raise and output order must be insertion order; valid words are supplied to checked and unchecked twins and bytes compared; checked elements inside unchecked parents must still validate, unchecked nodes inside checked trees must be exempt.',
   note='a checked twin that refuses a valid word is inconclusive here (C02)', ref='7 C18'),
 'C19': dict(cat='exploration', tech='exception classifier with call-site attribution, stdout/stderr proxies, sys.monitoring step budget per public call',
   text='All hostile history profiles on all content models plus a misuse battery on every class (every declared attribute with good/bad values, undeclared names, non-element children, the same child twice, foreign parents, non-children, bare to_string with both flags, values of every Python kind) and wide trees run under the classifier, the stdio proxies and the step budget.',
   note='documented families per the property text; step budget 3e6 function entries per call', ref='7 C19'),
 'C20': dict(cat='exploration', tech='two-thread scheduler on sys.monitoring LINE events: one pre-emption at every executed library line of a first use, each schedule in a child forked from a pristine parent; plus free-running stress',
   text='For each chosen class, thread A is pre-empted once at every library line of its first use while thread B completes its own first use (same class / class sharing attributes); both results (text, exception, answers to refused and equal-value-of-another-kind probes) are compared with the single-threaded result from a pristine child. Exhaustive over the one-pre-emption schedule family (stride in quick).',
   note='covers the schedule family the property names, not all interleavings', ref='7 C20'),
}
PENDING = ['C03', 'C04', 'C05', 'C08', 'C09', 'C12', 'C13', 'C14', 'C15', 'C16', 'C17', 'C18', 'C19', 'C20']

m = {
 'version': 1,
 'setup_cmd': './setup.sh',
 'hooks': {'guard': 'MUSICXML_VERIF', 'enable': 'none needed: every monitor attaches from outside (wrappers on the live classes, sys.monitoring, audit hooks); the harness sets MUSICXML_VERIF=1 in worker processes for the record only',
           'baseline_off_cmd': BASELINE, 'source_commits': [], 'add_only': True},
 'engines': [{'name': 'mxverif', 'path': 'mxverif/', 'serves_properties': sorted(CHECKS),
              'kind_free_text': 'runtime monitors (API recorders, shadow models, invariants, output validator, differential twins, sys.monitoring step/coverage/schedule/fault hooks) driving the real library, with an independent XSD reference model as oracle'}],
 'checks': [],
 'not_applicable': [],
 'notes': 'exit 0 = held on everything explored (known findings printed as KNOWN-FINDING lines), 1 = violation, 2 = inconclusive. known findings: known_findings.txt; design: DESIGN.md',
}
for pid in sorted(CHECKS):
    c = CHECKS[pid]
    m['checks'].append({
        'property_id': pid,
        'quick_cmd': './run %s --tier quick' % pid,
        'thorough_cmd': './run %s --tier thorough' % pid,
        'evidence_file': 'evidence/%s.json' % pid,
        'replay_cmd_template': './run %s --replay {path}' % pid,
        'engine': 'mxverif',
        'level_claimed': {'category': c['cat'], 'text': c['text'], 'design_ref': c['ref']},
        'level_note': c['note'],
        'technique': c['tech'],
    })
for pid in PENDING:
    if pid not in CHECKS:
        m['not_applicable'].append({'property_id': pid, 'reason': 'check not built yet (in progress); runtime monitoring applies, see DESIGN.md'})
json.dump(m, open(os.path.join(V, 'MANIFEST.json'), 'w'), indent=1)
print('checks', len(m['checks']), 'not_applicable', len(m['not_applicable']))
