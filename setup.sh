#!/bin/sh
# Builds nothing that needs the network: the framework is pure Python run by /venv/bin/python.
# Runs the reference-model self-test so that a broken oracle is noticed before any check is believed.
cd "$(dirname "$0")" || exit 2
mkdir -p evidence .cache
(cd ref && sha256sum -c --quiet SHA256SUMS) || exit 2
/venv/bin/python -B -m mxverif.selftest || exit 2
echo "setup ok"
