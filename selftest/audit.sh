#!/bin/sh
# Mutation audit of the machinery itself (not one of the registered checks).
#   selftest/audit.sh            every seeded change must be reported (exit 1) by the first check named in its meta.json
#   selftest/audit.sh only 'S10-*'   the same for the seeded changes matching the glob
#   selftest/audit.sh neutral    every property-preserving patch in selftest/neutral must leave all twenty checks at exit 0
# Each patch is applied in a scratch git worktree of /repo outside /repo and /verif, which is removed afterwards.
cd "$(dirname "$0")/.." || exit 2
fail=0
if [ "$1" = "neutral" ]; then
  for p in selftest/neutral/*.diff; do
    W=$(mktemp -d /tmp/audit.XXXXXX); rmdir $W
    git -C /repo worktree add -q --detach $W HEAD || exit 2
    git -C $W apply "$PWD/$p" || { echo "$p does not apply"; fail=1; git -C /repo worktree remove --force $W; continue; }
    for c in C01 C02 C03 C04 C05 C06 C07 C08 C09 C10 C11 C12 C13 C14 C15 C16 C17 C18 C19 C20; do
      VERIF_REPO=$W ./run $c --tier quick > /tmp/audit.$$ 2>&1; rc=$?
      [ $rc -ne 0 ] && { echo "FALSE ALARM: $p $c exit=$rc"; fail=1; }
    done
    git -C /repo worktree remove --force $W
    echo "$p done"
  done
else
  pat='*'; [ "$1" = "only" ] && pat="$2"
  for d in seeded/$pat/; do
    id=$(basename $d)
    chk=$(python3 -c "import json;print(json.load(open('$d/meta.json'))['checks_that_report_it_quick_tier'][0])")
    W=$(mktemp -d /tmp/audit.XXXXXX); rmdir $W
    git -C /repo worktree add -q --detach $W HEAD || exit 2
    if git -C $W apply "$PWD/$d/patch.diff"; then
      VERIF_REPO=$W ./run $chk --tier quick > /tmp/audit.$$ 2>&1; rc=$?
      if [ $rc -eq 1 ]; then echo "$id reported by $chk"; else echo "MISSED: $id $chk exit=$rc"; fail=1; fi
    else
      echo "$id: patch does not apply"; fail=1
    fi
    git -C /repo worktree remove --force $W
  done
fi
rm -f /tmp/audit.$$
exit $fail
