"""Oracle self-test (DESIGN section 3): exit 0 iff the reference model passes its own checks."""
import glob
import os
import sys
import xml.etree.ElementTree as ET

from . import ref


def main():
    probs = ref.selftest()
    repo = os.environ.get('VERIF_REPO', '/repo')
    n = 0
    for f in sorted(glob.glob(os.path.join(repo, 'musicxml', 'parser', '*.xml'))):
        if os.path.getsize(f) == 0 or os.path.getsize(f) > 400000:
            continue
        try:
            root = ET.parse(f).getroot()
        except ET.ParseError:
            continue
        if root.tag != 'score-partwise':
            continue
        errs = ref.validate_doc(root)
        n += 1
        if errs:
            probs.append('real-world export %s rejected by the reference validator: %r' % (f, errs[:3]))
    for p in probs:
        print('SELFTEST PROBLEM:', p)
    print('reference model: %d complex types, %d content models, %d DFA states, %d transitions; %d exports validated' % (
        len(ref.ALL), len(ref.DFAS), sum(d.nstates for d in ref.DFAS.values()),
        sum(len(d.edges()) for d in ref.DFAS.values()), n))
    return 1 if probs else 0


if __name__ == '__main__':
    sys.exit(main())
