"""Particle AST -> Thompson NFA -> subset DFA, plus the searches the oracles need.

Imports nothing from musicxml.  A particle is one of
    ('el', name)  ('seq', [p, ...])  ('cho', [p, ...])  ('rep', p, min, max|None)
"""
import collections
import heapq
import itertools


class _NFA:
    def __init__(self):
        self.n = 0
        self.eps = collections.defaultdict(set)
        self.tr = collections.defaultdict(lambda: collections.defaultdict(set))

    def new(self):
        self.n += 1
        return self.n - 1


def _build(nfa, p):
    k = p[0]
    if k == 'el':
        a = nfa.new(); b = nfa.new(); nfa.tr[a][p[1]].add(b)
        return a, b
    if k == 'seq':
        a = nfa.new(); cur = a
        for c in p[1]:
            x, y = _build(nfa, c); nfa.eps[cur].add(x); cur = y
        return a, cur
    if k == 'cho':
        a = nfa.new(); b = nfa.new()
        if not p[1]:
            nfa.eps[a].add(b)
        for c in p[1]:
            x, y = _build(nfa, c); nfa.eps[a].add(x); nfa.eps[y].add(b)
        return a, b
    if k == 'rep':
        _, q, mi, ma = p
        a = nfa.new(); cur = a
        for _i in range(mi):
            x, y = _build(nfa, q); nfa.eps[cur].add(x); cur = y
        if ma is None:
            x, y = _build(nfa, q); l = nfa.new()
            nfa.eps[cur].add(l); nfa.eps[l].add(x); nfa.eps[y].add(l); cur = l
        else:
            end = nfa.new(); nfa.eps[cur].add(end)
            for _i in range(ma - mi):
                x, y = _build(nfa, q); nfa.eps[cur].add(x); cur = y; nfa.eps[cur].add(end)
            cur = end
        return a, cur
    raise ValueError(p)


class DFA:
    """Deterministic automaton of a particle (None = empty content: only the empty word)."""

    def __init__(self, p):
        nfa = _NFA()
        if p is None:
            a = nfa.new(); b = a
        else:
            a, b = _build(nfa, p)

        def clo(S):
            S = set(S); st = list(S)
            while st:
                x = st.pop()
                for y in nfa.eps[x]:
                    if y not in S:
                        S.add(y); st.append(y)
            return frozenset(S)

        start = clo({a})
        ids = {start: 0}
        order = [start]
        self.trans = {}
        self.acc = set()
        self.alpha = set()
        i = 0
        while i < len(order):
            S = order[i]; i += 1
            if b in S:
                self.acc.add(ids[S])
            m = collections.defaultdict(set)
            for x in S:
                for sym, ys in nfa.tr[x].items():
                    m[sym] |= ys
            for sym in sorted(m):
                T = clo(m[sym])
                if T not in ids:
                    ids[T] = len(order); order.append(T)
                self.trans[(ids[S], sym)] = ids[T]
                self.alpha.add(sym)
        self.start = 0
        self.nstates = len(order)
        self.states = set(range(self.nstates))
        rev = collections.defaultdict(set)
        for (S, sym), T in self.trans.items():
            rev[T].add(S)
        live = set(self.acc); st = list(live)
        while st:
            x = st.pop()
            for y in rev[x]:
                if y not in live:
                    live.add(y); st.append(y)
        self.live = live
        self.alphabet = sorted(self.alpha)
        self._sup_cache = {}

    # ------------------------------------------------------------------ basic
    def step(self, S, sym):
        return self.trans.get((S, sym))

    def run(self, w):
        S = self.start
        for sym in w:
            S = self.trans.get((S, sym))
            if S is None:
                return None
        return S

    def accepts(self, w):
        S = self.run(w)
        return S is not None and S in self.acc

    def viable(self, w):
        S = self.run(w)
        return S is not None and S in self.live

    def edges(self):
        return [(S, sym, T) for (S, sym), T in sorted(self.trans.items()) if T in self.live and S in self.live]

    # ------------------------------------------------------------- enumeration
    def words(self, maxlen, limit=None):
        out = []

        def rec(S, w):
            if limit is not None and len(out) >= limit:
                return
            if S in self.acc:
                out.append(tuple(w))
            if len(w) >= maxlen:
                return
            for sym in self.alphabet:
                T = self.trans.get((S, sym))
                if T is not None and T in self.live:
                    w.append(sym); rec(T, w); w.pop()
        rec(self.start, [])
        return out

    def shortest_from(self, S):
        """shortest word leading from S to acceptance (BFS)"""
        seen = {S}; todo = collections.deque([(S, ())])
        while todo:
            X, w = todo.popleft()
            if X in self.acc:
                return w
            for sym in self.alphabet:
                T = self.trans.get((X, sym))
                if T is not None and T in self.live and T not in seen:
                    seen.add(T); todo.append((T, w + (sym,)))
        return None

    def shortest_to(self, target):
        seen = {self.start}; todo = collections.deque([(self.start, ())])
        while todo:
            X, w = todo.popleft()
            if X == target:
                return w
            for sym in self.alphabet:
                T = self.trans.get((X, sym))
                if T is not None and T in self.live and T not in seen:
                    seen.add(T); todo.append((T, w + (sym,)))
        return None

    def transition_cover(self):
        """one accepted word per live edge: shortest prefix to S, the edge, shortest completion"""
        out = []
        seen = set()
        for S, sym, T in self.edges():
            pre = self.shortest_to(S)
            suf = self.shortest_from(T)
            if pre is None or suf is None:
                continue
            w = pre + (sym,) + suf
            if w not in seen:
                seen.add(w); out.append(w)
        return out

    def pumped_words(self, lengths, per_state=2):
        """accepted words u v^n w with v a shortest cycle through a live edge (S, sym): the same group repeated until the word
        has about the requested length. One word per (distinct cycle, length)"""
        out = []
        cycles = set()
        for S, sym, T in self.edges():
            # shortest path back from T to S
            seen = {T}; todo = collections.deque([(T, ())]); back = None
            while todo:
                X, w = todo.popleft()
                if X == S:
                    back = w
                    break
                for a in self.alphabet:
                    Y = self.trans.get((X, a))
                    if Y is not None and Y in self.live and Y not in seen:
                        seen.add(Y); todo.append((Y, w + (a,)))
            if back is None:
                continue
            v = (sym,) + back
            # canonical rotation so the same cycle is taken once
            key = min(v[i:] + v[:i] for i in range(len(v)))
            if key in cycles:
                continue
            cycles.add(key)
            pre = self.shortest_to(S)
            suf = self.shortest_from(S)
            if pre is None or suf is None:
                continue
            for n in lengths:
                k = max(2, -(-n // len(v)))
                out.append(pre + v * k + suf)
        return out

    def random_word(self, rnd, maxlen=40, stop=0.15, pump=True):
        """random accepted walk; with pump, prefers to stay in loops"""
        S = self.start; w = []
        while True:
            nxt = [(s, self.trans[(S, s)]) for s in self.alphabet
                   if (S, s) in self.trans and self.trans[(S, s)] in self.live]
            if S in self.acc and (not nxt or len(w) >= maxlen or rnd.random() < stop):
                return tuple(w)
            if len(w) >= maxlen:
                return tuple(w) + self.shortest_from(S)
            if not nxt:
                return tuple(w)
            if pump and w and rnd.random() < 0.35:
                # try to repeat a symbol already used (drives second/third iterations of repeated groups)
                again = [(s, T) for s, T in nxt if s in w]
                if again:
                    nxt = again
            s, T = rnd.choice(nxt)
            w.append(s); S = T

    # ------------------------------------------------------- multiset searches
    def super_word_exists(self, ms):
        """is the multiset ms a sub-multiset of some accepted word?  BFS over (state, remaining)."""
        key = tuple(sorted(collections.Counter(ms).items()))
        if key in self._sup_cache:
            return self._sup_cache[key]
        rem0 = dict(key)
        for s in rem0:
            if s not in self.alpha:
                self._sup_cache[key] = False
                return False
        start = (self.start, key)
        seen = {start}; todo = [start]
        res = False
        while todo:
            S, rk = todo.pop()
            if not rk and S in self.live:
                res = True
                break
            rem = dict(rk)
            for sym in self.alphabet:
                T = self.trans.get((S, sym))
                if T is None or T not in self.live:
                    continue
                if rem.get(sym, 0) > 0:
                    r = dict(rem); r[sym] -= 1
                    if r[sym] == 0:
                        del r[sym]
                    k = (T, tuple(sorted(r.items())))
                else:
                    k = (T, rk)
                if k not in seen:
                    seen.add(k); todo.append(k)
        if len(self._sup_cache) < 200000:
            self._sup_cache[key] = res
        return res

    def arrangements(self, ms, limit=2):
        """distinct accepted words that are permutations of ms (up to limit)"""
        ms = collections.Counter(ms); out = []

        def rec(S, rem, w):
            if len(out) >= limit:
                return
            if not rem:
                if S in self.acc:
                    out.append(tuple(w))
                return
            for sym in sorted(rem):
                T = self.trans.get((S, sym))
                if T is None or T not in self.live:
                    continue
                r = rem.copy(); r[sym] -= 1
                if r[sym] == 0:
                    del r[sym]
                w.append(sym); rec(T, r, w); w.pop()
        rec(self.start, ms, [])
        return out

    def completion(self, ms):
        """some accepted word containing the multiset ms, or None (shortest-ish, BFS)"""
        key = tuple(sorted(collections.Counter(ms).items()))
        start = (self.start, key)
        seen = {start}; todo = collections.deque([(self.start, key, ())])
        while todo:
            S, rk, w = todo.popleft()
            if not rk and S in self.acc:
                return w
            rem = dict(rk)
            for sym in self.alphabet:
                T = self.trans.get((S, sym))
                if T is None or T not in self.live:
                    continue
                if rem.get(sym, 0) > 0:
                    r = dict(rem); r[sym] -= 1
                    if r[sym] == 0:
                        del r[sym]
                    k = (T, tuple(sorted(r.items())))
                else:
                    k = (T, rk)
                if k not in seen:
                    seen.add(k); todo.append((k[0], k[1], w + (sym,)))
        return None


def equivalent(d1, d2):
    """exact language equivalence by product construction; returns (True, None) or (False, witness word)"""
    alpha = sorted(d1.alpha | d2.alpha)
    start = (d1.start, d2.start)
    seen = {start}; todo = collections.deque([(start, ())])
    while todo:
        (a, b), w = todo.popleft()
        acc1 = a is not None and a in d1.acc
        acc2 = b is not None and b in d2.acc
        if acc1 != acc2:
            return False, w
        for s in alpha:
            x = d1.trans.get((a, s)) if a is not None else None
            y = d2.trans.get((b, s)) if b is not None else None
            if x is None and y is None:
                continue
            k = (x, y)
            if k not in seen:
                seen.add(k); todo.append((k, w + (s,)))
    return True, None


def particle_size(p):
    if p is None:
        return 0
    if p[0] == 'el':
        return 1
    if p[0] == 'rep':
        return 1 + particle_size(p[1])
    return 1 + sum(particle_size(c) for c in p[1])
