"""History generators (G-hist): deterministic cores and seeded hostile halos. Imports only the reference model."""
import itertools

from . import ref

FOREIGN = ['pitch', 'chord', 'words', 'offset', 'credit-words', 'staff', 'fifths']


def foreign_for(t):
    a = ref.DFAS[t].alpha
    return next(n for n in FOREIGN if n not in a)


def core_additions(t, n):
    """every sequence of <= n additions over the type's alphabet (seed independent)"""
    alpha = ref.DFAS[t].alphabet
    for k in range(1, n + 1):
        for w in itertools.product(alpha, repeat=k):
            yield [['add', s, None] for s in w]


def n_core_additions(t, n):
    a = len(ref.DFAS[t].alphabet)
    return sum(a ** k for k in range(1, n + 1))


def tails(t, nlive, kinds=('rm', 'rep', 'fwd', 'str', 'set')):
    """every single follow-up operation after nlive successful additions"""
    alpha = ref.DFAS[t].alphabet
    if 'rm' in kinds:
        for k in range(nlive):
            yield ['rm', k]
    if 'rep' in kinds:
        for k in range(nlive):
            for s in alpha + [foreign_for(t)]:
                yield ['rep', k, s]
    if 'repa' in kinds:
        for k in range(nlive):
            for s in alpha:
                yield ['repa', k, s]          # predicate matching every child + index: the index selects what is replaced
    if 'fwd' in kinds:
        for s in alpha:
            for f in (0, 1, -1) + ((5,) if len(alpha) <= 8 else ()):
                yield ['add', s, f]
    if 'str' in kinds:
        yield ['str', False]
        yield ['str', True]
    if 'set' in kinds:
        for s in alpha:
            for how in ('el', 'none'):
                yield ['set', s, how]


def core_mixed(t, nadds, kinds=('rm', 'rep', 'fwd', 'str', 'set')):
    alpha = ref.DFAS[t].alphabet
    for k in range(0, nadds + 1):
        for w in itertools.product(alpha, repeat=k):
            pre = [['add', s, None] for s in w]
            for tail in tails(t, k, kinds):
                yield pre + [tail]
                if tail[0] == 'add' and tail[2] is not None and tail[2] in (0, 1):
                    yield pre + [tail, list(tail)]                     # the same refused offer made twice
                if tail[0] == 'rm':
                    yield pre[:] + [['repself', tail[1]], tail]        # self-replacement, then the removal
                    yield pre[:] + [['repself', tail[1]], ['rep', tail[1], w[tail[1] % k]]] if k else pre + [tail]
                    yield pre + [tail, ['rmgone', 0]]                  # remove with the stale handle afterwards
                    for s in alpha[:6]:
                        yield pre + [tail, ['rmgone', 0], ['add', s, None]]
                if tail[0] == 'rep' and tail[2] in ref.DFAS[t].alpha and k and tail[2] == w[tail[1] % k]:
                    yield pre + [tail, ['rmgone', 0]]                  # stale handle after a same-name replacement
                    for s in alpha[:6]:
                        yield pre + [tail, ['rmgone', 0], ['add', s, None]]


def n_core_mixed(t, nadds):
    a = len(ref.DFAS[t].alphabet)
    return sum((a ** k) * (k + k * (a + 1) + 4 * a + 2 + 2 * a) for k in range(nadds + 1))


def _pick_symbol(rnd, alpha, used, p_again):
    if used and rnd.random() < p_again:
        return rnd.choice(used)
    return rnd.choice(alpha)


def random_history(rnd, t, maxlen=10, profile='mixed'):
    """seeded hostile history. profiles: mixed, addonly, failure, removal, serialise, guided, longrun, shortcut"""
    d = ref.DFAS[t]
    alpha = d.alphabet
    n = rnd.randint(2, maxlen)
    hist = []
    used = []
    nlive = 0
    if profile == 'guided' or (profile in ('mixed', 'failure', 'removal', 'serialise') and rnd.random() < 0.5):
        w = list(d.random_word(rnd, maxlen=max(3, maxlen - 2), stop=0.25))
        mode = rnd.choice(['asis', 'reverse', 'shuffle', 'rotate'])
        if mode == 'reverse':
            w.reverse()
        elif mode == 'shuffle':
            rnd.shuffle(w)
        elif mode == 'rotate' and w:
            k = rnd.randrange(len(w)); w = w[k:] + w[:k]
        seedwords = w[:maxlen]
    else:
        seedwords = []
    weights = {
        'mixed':     dict(add=6, fwd=1, rm=2, rep=1, set=1, str=1, rmgone=1, repself=1),
        'addonly':   dict(add=10, fwd=0, rm=0, rep=0, set=0, str=0),
        'guided':    dict(add=8, fwd=0, rm=1, rep=0, set=0, str=1),
        'failure':   dict(add=6, fwd=3, rm=1, rep=2, set=1, str=2, rmgone=2, repself=1),
        'removal':   dict(add=6, fwd=0, rm=4, rep=0, set=1, str=0, repself=1),
        'serialise': dict(add=6, fwd=0, rm=2, rep=0, set=0, str=4),
        'longrun':   dict(add=12, fwd=0, rm=1, rep=0, set=0, str=0),
        'shortcut':  dict(add=4, fwd=0, rm=1, rep=0, set=5, str=1),
    }[profile]
    kinds = [k for k, wgt in weights.items() for _ in range(wgt)]
    p_again = 0.6 if profile in ('failure', 'longrun') else 0.35
    while len(hist) < n:
        if seedwords and rnd.random() < 0.7:
            s = seedwords.pop(0)
            hist.append(['add', s, None]); used.append(s); nlive += 1
            continue
        if hist and profile in ('failure', 'mixed') and rnd.random() < 0.12:
            hist.append(list(hist[-1]))           # the same call again (a refused offer repeated verbatim)
            continue
        k = rnd.choice(kinds)
        if k == 'rmgone':
            hist.append(['rmgone', rnd.randrange(4)])
            continue
        if k == 'repself':
            if nlive:
                hist.append(['repself', rnd.randrange(max(1, nlive))])
            continue
        if k == 'add':
            s = _pick_symbol(rnd, alpha, used, p_again)
            hist.append(['add', s, None]); used.append(s); nlive += 1
        elif k == 'fwd':
            s = _pick_symbol(rnd, alpha, used, p_again)
            hist.append(['add', s, rnd.choice([0, 0, 1, 1, 2, 7, -1])]); used.append(s); nlive += 1
        elif k == 'rm':
            if nlive:
                hist.append(['rm', rnd.randrange(max(1, nlive))])
        elif k == 'rep':
            if nlive:
                s = rnd.choice(alpha + [foreign_for(t)]) if rnd.random() < 0.7 else _pick_symbol(rnd, alpha, used, 1.0)
                hist.append([rnd.choice(['rep', 'rep', 'repf', 'repi', 'repa']), rnd.randrange(max(1, nlive)), s])
        elif k == 'set':
            s = _pick_symbol(rnd, alpha, used, 0.5)
            hist.append(['set', s, rnd.choice(['el', 'val', 'none', 'none'])])
        elif k == 'str':
            hist.append(['str', rnd.random() < 0.4])
    return hist


def with_final_str(hists, ics=(False, True)):
    for h in hists:
        for ic in ics:
            yield h + [['str', ic]]


def core_str_anywhere(t, nadds):
    """<= nadds additions with one serialisation at every position (both flags)"""
    alpha = ref.DFAS[t].alphabet
    for k in range(0, nadds + 1):
        for w in itertools.product(alpha, repeat=k):
            adds = [['add', s, None] for s in w]
            for pos in range(k + 1):
                for ic in (False, True):
                    yield adds[:pos] + [['str', ic]] + adds[pos:]


def core_removals(t, nadds):
    """every sequence of <= nadds additions followed by the removal of each child (C11 core)"""
    alpha = ref.DFAS[t].alphabet
    for k in range(1, nadds + 1):
        for w in itertools.product(alpha, repeat=k):
            adds = [['add', s, None] for s in w]
            for i in range(k):
                yield adds + [['rm', i]]


def core_remove_then_add(t):
    """one addition, its removal, one further addition (every pair of symbols)"""
    alpha = ref.DFAS[t].alphabet
    for a in alpha:
        for b in alpha:
            yield [['add', a, None], ['rm', 0], ['add', b, None]]
        yield [['set', a, 'el'], ['set', a, 'none'], ['add', a, None]]


def nadd_for(t, tier, small=12):
    a = len(ref.DFAS[t].alphabet)
    if tier == 'quick':
        return 3 if a <= small else 2
    return 4 if a <= 8 else 3


def core_str_then_change(t):
    """one addition, a serialisation, one change of that child (remove / same-name replace / shortcut), a serialisation"""
    alpha = ref.DFAS[t].alphabet
    for s in alpha:
        for ic in (False, True):
            for change in (['rm', 0], ['rep', 0, s], ['repf', 0, s], ['repi', 0, s], ['set', s, 'el'], ['set', s, 'none']):
                yield [['add', s, None], ['str', ic], list(change), ['str', False]]
            for s2 in alpha[:8]:
                yield [['add', s, None], ['str', ic], ['rm', 0], ['add', s2, None], ['str', False]]
            # a serialisation (possibly refused) directly followed by one with the other flag
            yield [['add', s, None], ['str', ic], ['str', not ic]]
            yield [['add', s, None], ['str', ic], ['str', not ic], ['str', ic]]


def leaf_counts(t):
    """how many leaves of the content model carry each element name (forward= addresses the k-th of them)"""
    import collections
    c = collections.Counter()

    def walk(p):
        if p is None:
            return
        if p[0] == 'el':
            c[p[1]] += 1
        elif p[0] == 'rep':
            walk(p[1])
        else:
            for q in p[1]:
                walk(q)
    walk(ref.MODELS[t])
    return c


def core_forward_first(t, n):
    """an addition forwarded to a later same-name leaf (forward=1..k-1), followed by every sequence of <= n plain additions"""
    alpha = ref.DFAS[t].alphabet
    for s, k in sorted(leaf_counts(t).items()):
        if k < 2:
            continue
        for f in range(1, min(k, 4)):
            first = ['add', s, f]
            yield [first]
            for m in range(1, n + 1):
                for w in itertools.product(alpha, repeat=m):
                    yield [list(first)] + [['add', x, None] for x in w]


def n_core_forward_first(t, n):
    a = len(ref.DFAS[t].alphabet)
    return sum(min(k, 4) - 1 for k in leaf_counts(t).values() if k >= 2) * sum(a ** m for m in range(n + 1))


def core_long(t, length=300, words=2):
    """long runs: a pumped valid word of about `length` children (a shortest cycle of the reference automaton repeated), then
    a replacement, a removal and a predicate-form replacement at LATE positions (>= 257), each followed by a serialisation"""
    d = ref.DFAS[t]
    for w in d.pumped_words((length,))[:words]:
        if len(w) < 262:
            continue
        adds = [['add', s, None] for s in w]
        n = len(w)
        yield adds + [['rep', n - 5, w[n - 5]], ['str', False], ['rm', n - 20], ['str', False],
                      ['repf', n - 30, w[n - 30]], ['repi', n - 40, w[n - 40]], ['repself', n - 12], ['rm', 258], ['str', False]]


def core_last_twice(t, n):
    """every sequence of <= n additions whose LAST addition is offered twice (a refused offer repeated verbatim must be
    refused again; an accepted one simply repeats)"""
    for h in core_additions(t, n):
        yield h + [list(h[-1])]


def core_toggled(t, nadds):
    """<= nadds additions with checking on, the xsd_check setter switched off, one replacement / addition / removal, checking
    switched on again, a serialisation: what returns with checking on must be valid"""
    alpha = ref.DFAS[t].alphabet
    for k in range(1, nadds + 1):
        for w in itertools.product(alpha, repeat=k):
            pre = [['add', s, None] for s in w]
            for i in range(k):
                for s in alpha:
                    for kind in ('rep', 'repa'):
                        yield pre + [['chk', False], [kind, i, s], ['chk', True], ['str', False]]
                yield pre + [['chk', False], ['rm', i], ['chk', True], ['str', False]]
            for s in alpha:
                yield pre + [['chk', False], ['add', s, None], ['chk', True], ['str', False]]


def core_remove_and_restore(t, tier='quick'):
    """a valid word (every word <= 3, a transition cover, short pumped words), one child removed and a child of the same name
    added again: the hole must be filled where it was (same verdict / text / acceptance as the fresh twin)"""
    d = ref.DFAS[t]
    seen = set()
    words = d.words(3, limit=60 if tier == 'quick' else 600) + d.transition_cover()[:20 if tier == 'quick' else 200] + \
        d.pumped_words((6,))[:8 if tier == 'quick' else 40]
    for w in words:
        w = tuple(w)
        if not w or w in seen or len(w) > 12:
            continue
        seen.add(w)
        adds = [['add', s, None] for s in w]
        for i in range(len(w)):
            yield adds + [['rm', i], ['add', w[i], None]]
