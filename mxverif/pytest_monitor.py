"""pytest plugin: run the repository's own tests with the monitors attached (-p mxverif.pytest_monitor).

Wraps the public mutators of XMLElement on the live class.  At the boundary of every OUTERMOST public call (return
and raise path) it evaluates the C06 view invariants; on every normal return of to_string() whose receiver is a
checked element it validates the output against the reference model (C01) for every checked node.  It records and
never raises, so the tests run exactly as without it.  The report goes to $MXVERIF_REPORT as JSON.
"""
import collections
import json
import os
import threading
import xml.etree.ElementTree as ET

from . import ref

STATS = collections.Counter()
WITNESS = []
_depth = threading.local()


def _install():
    from musicxml.xmlelement import xmlelement as xe
    X = xe.XMLElement

    def invariants(e, where):
        d = e.__dict__
        if '_unordered_children' not in d or not e.xsd_check:
            return
        STATS['invariant_evaluations'] += 1
        try:
            o = e.get_children(True)
            u = e.get_children(False)
        except Exception as err:  # noqa: BLE001
            STATS['monitor_error:' + type(err).__name__] += 1
            return
        if sorted(map(id, o)) != sorted(map(id, u)):
            STATS['C06:views-differ'] += 1
            if len(WITNESS) < 20:
                WITNESS.append({'property': 'C06', 'kind': 'views-differ', 'where': where, 'class': type(e).__name__,
                                'ordered': [c.name for c in o], 'insertion': [c.name for c in u],
                                'test': os.environ.get('PYTEST_CURRENT_TEST', '')})
        for c in u:
            if c.get_parent() is not e:
                STATS['C06:child-parent-wrong'] += 1
                if len(WITNESS) < 20:
                    WITNESS.append({'property': 'C06', 'kind': 'child-parent-wrong', 'where': where, 'class': type(e).__name__,
                                    'child': c.name, 'test': os.environ.get('PYTEST_CURRENT_TEST', '')})

    def validate_output(e, text):
        STATS['to_string_returns'] += 1
        if not e.xsd_check:
            STATS['to_string_unchecked_root'] += 1
            return
        try:
            root = ET.fromstring(text)
        except ET.ParseError:
            STATS['C16:unparsable'] += 1
            return

        def walk(x, node):
            if node.tag not in ref.ELS:
                return
            t = ref.eltype(node.tag)
            if x.xsd_check and t in ref.DFAS:
                STATS['checked_nodes_validated'] += 1
                if not ref.DFAS[t].accepts([c.tag for c in node]):
                    STATS['C01:invalid-word'] += 1
                    if len(WITNESS) < 20:
                        WITNESS.append({'property': 'C01', 'kind': 'invalid-word', 'class': type(x).__name__,
                                        'word': [c.tag for c in node], 'test': os.environ.get('PYTEST_CURRENT_TEST', '')})
            kids = x.get_children()
            if len(kids) == len(node):
                for a, b in zip(kids, node):
                    walk(a, b)
        walk(e, root)

    def wrap(name):
        orig = getattr(X, name)

        def wrapper(self, *a, **k):
            dep = getattr(_depth, 'n', 0)
            _depth.n = dep + 1
            try:
                res = orig(self, *a, **k)
            except BaseException:
                _depth.n = dep
                if dep == 0:
                    STATS['public_calls_raising'] += 1
                    invariants(self, name + ':raise')
                raise
            _depth.n = dep
            if dep == 0:
                STATS['public_calls'] += 1
                invariants(self, name)
                if name == 'to_string':
                    validate_output(self, res)
            return res
        wrapper.__name__ = name
        wrapper.__doc__ = orig.__doc__
        setattr(X, name, wrapper)
    for n in ('add_child', 'remove', 'replace_child', 'to_string'):
        wrap(n)


_install()


def pytest_sessionfinish(session, exitstatus):
    out = os.environ.get('MXVERIF_REPORT')
    if out:
        with open(out, 'w') as f:
            json.dump({'stats': dict(STATS), 'witnesses': WITNESS, 'exitstatus': int(exitstatus)}, f)
