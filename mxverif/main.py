"""Entry point: python -m mxverif.main C07 --tier quick [--replay path] [--dump]"""
import argparse
import os
import sys

sys.path.insert(0, os.environ.get('VERIF_REPO', '/repo'))

from . import engine


def main():
    ap = argparse.ArgumentParser()
    ap.add_argument('check')
    ap.add_argument('--tier', default=os.environ.get('VERIF_TIER', 'quick'), choices=['quick', 'thorough'])
    ap.add_argument('--seed', type=int, default=int(os.environ.get('VERIF_SEED', '0') or 0))
    ap.add_argument('--replay')
    ap.add_argument('--dump', action='store_true', help='print unmatched violation signatures (development aid)')
    a = ap.parse_args()
    sys.exit(engine.run_check(a.check, a.tier, a.seed, a.replay, a.dump))


if __name__ == '__main__':
    main()
