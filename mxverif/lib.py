"""Binding of the harness to the live musicxml classes (public API only for verdicts)."""
import collections
import io
import os
import re
import sys
import warnings

warnings.simplefilter('ignore')

REPO = os.environ.get('VERIF_REPO', '/repo')

import musicxml  # noqa: E402

if not os.path.abspath(musicxml.__file__).startswith(os.path.abspath(REPO) + os.sep):
    sys.stderr.write('INCONCLUSIVE: musicxml loaded from %s, not from %s\n' % (musicxml.__file__, REPO))
    sys.exit(2)

from . import ref  # noqa: E402

# ----------------------------------------------------------------------------- stdio monitor (M-stdio)
STDIO_EVENTS = []


class _StdProxy(io.TextIOBase):
    def __init__(self, which, real):
        self.which = which
        self.real = real

    def write(self, s):
        if not s:
            return 0
        f = sys._getframe(1)
        site = None
        depth = 0
        while f is not None and depth < 60:
            fn = f.f_code.co_filename
            if '/musicxml/' in fn and '/mxverif/' not in fn:
                site = '%s:%s' % (os.path.basename(fn), f.f_code.co_name)
                break
            f = f.f_back
            depth += 1
        if site is None:
            # not from the library: pass through (harness output)
            return self.real.write(s)
        STDIO_EVENTS.append((self.which, site, s[:80]))
        return len(s)

    def flush(self):
        self.real.flush()

    def fileno(self):
        return self.real.fileno()


def install_stdio_monitor():
    if not isinstance(sys.stdout, _StdProxy):
        sys.stdout = _StdProxy('stdout', sys.stdout)
        sys.stderr = _StdProxy('stderr', sys.stderr)


install_stdio_monitor()

from musicxml.xmlelement import xmlelement as xe  # noqa: E402
from musicxml.xmlelement.containers import containers  # noqa: E402
from musicxml.util.core import convert_to_xml_class_name  # noqa: E402
import musicxml.exceptions as mex  # noqa: E402
import musicxml.xmlelement.exceptions as xex  # noqa: E402

XMLElement = xe.XMLElement
CLASSES = {n: c for n, c in vars(xe).items()
           if isinstance(c, type) and issubclass(c, XMLElement) and c is not XMLElement}
ANON_BY_CLASSNAME = {'XSDComplexTypeScorePartwise': 'score-partwise@', 'XSDComplexTypePart': 'part@',
                     'XSDComplexTypeMeasure': 'measure@', 'XSDComplexTypeDirective': 'directive@'}


def _cap(name):
    return ''.join(p[0].upper() + p[1:] for p in name.split('-') if p)


TYPE_OF_CLASSNAME = dict(ANON_BY_CLASSNAME)
for _t in ref.ctypes:
    TYPE_OF_CLASSNAME['XSDComplexType' + _cap(_t)] = _t
for _t in list(ref.stypes) + list(ref.xml_stypes) + list(ref.BUILTIN):
    TYPE_OF_CLASSNAME.setdefault('XSDSimpleType' + _cap(_t.split(':')[-1]), _t)


def xsd_type_name(cls):
    """name of the XSD type a class is bound to, in the reference model's naming (by the documented naming rule)"""
    return TYPE_OF_CLASSNAME[cls.TYPE.__name__]


def child_cls(name):
    return CLASSES[convert_to_xml_class_name(name)]


def cls_of_element(name):
    return CLASSES.get(convert_to_xml_class_name(name))


CONTAINER_CLASSES = {}
TYPES = {}          # xsd type name (element-content types) -> representative class
CLASSES_OF_TYPE = collections.defaultdict(list)
for _n, _c in sorted(CLASSES.items()):
    try:
        _t = xsd_type_name(_c)
    except Exception:
        continue
    CLASSES_OF_TYPE[_t].append(_c)
    if _t in ref.DFAS:
        CONTAINER_CLASSES[_n] = _c
        TYPES.setdefault(_t, _c)

DOCUMENTED = (mex.XSDException, mex.XMLElementException, xex.XMLElementException, xex.XMLChildContainerException,
              xex.XMLChildContainerFactoryException, TypeError, ValueError)
INTERNAL_CLASSES = (NotImplementedError, IndexError, KeyError, RecursionError, NameError, AssertionError,
                    ZeroDivisionError, UnboundLocalError)


class StepBudgetExceeded(BaseException):
    pass


def classify_exception(exc, dot_name=False):
    """'documented' | 'internal:<Class>' for an exception escaping a public call"""
    if isinstance(exc, StepBudgetExceeded):
        return 'internal:StepBudgetExceeded'
    if isinstance(exc, INTERNAL_CLASSES):
        return 'internal:' + type(exc).__name__
    if isinstance(exc, AttributeError):
        msg = str(exc)
        if 'NoneType' in msg:
            return 'internal:AttributeError-None'
        # documented: the library's own unknown-name message, or an AttributeError raised by the dot-name protocol
        if dot_name or 'Allowed attributes are' in msg:
            return 'documented'
        return 'internal:AttributeError'
    if isinstance(exc, DOCUMENTED):
        return 'documented'
    return 'internal:' + type(exc).__name__


def raise_site(exc):
    """function name of the innermost library frame of an exception's traceback"""
    tb = exc.__traceback__
    site = None
    while tb is not None:
        fn = tb.tb_frame.f_code.co_filename
        if '/musicxml/' in fn and '/mxverif/' not in fn:
            site = tb.tb_frame.f_code.co_name
        tb = tb.tb_next
    return site


# ----------------------------------------------------------------------------- step counter (M-steps)
class Steps:
    """PY_START counter on repo files through sys.monitoring; a logical (not wall-clock) hang bound"""
    TOOL = 4

    def __init__(self):
        self.count = 0
        self.budget = None
        self.on = False
        self.max_seen = 0

    def start(self):
        mon = sys.monitoring
        try:
            mon.use_tool_id(self.TOOL, 'mxverif-steps')
        except ValueError:
            return
        repo_marker = os.sep + 'musicxml' + os.sep

        def py_start(code, offset):
            if repo_marker not in code.co_filename:
                return mon.DISABLE
            self.count += 1
            if self.budget is not None and self.count > self.budget:
                self.budget = None
                raise StepBudgetExceeded(code.co_name)

        mon.register_callback(self.TOOL, mon.events.PY_START, py_start)
        mon.set_events(self.TOOL, mon.events.PY_START)
        self.on = True

    def stop(self):
        if self.on:
            mon = sys.monitoring
            mon.set_events(self.TOOL, 0)
            mon.register_callback(self.TOOL, mon.events.PY_START, None)
            mon.free_tool_id(self.TOOL)
            self.on = False

    def begin(self, budget=None):
        self.count = 0
        self.budget = budget

    def end(self):
        self.budget = None
        if self.count > self.max_seen:
            self.max_seen = self.count
        return self.count


STEPS = Steps()


class Coverage:
    """set of executed (file, line) in the repo via LINE events that DISABLE themselves after the first hit,
    plus RAISE events (function, exception class)"""
    TOOL = 5

    def __init__(self):
        self.lines = set()
        self.raises = collections.Counter()
        self.on = False

    def start(self):
        mon = sys.monitoring
        try:
            mon.use_tool_id(self.TOOL, 'mxverif-cov')
        except ValueError:
            return
        marker = os.sep + 'musicxml' + os.sep

        def line(code, lineno):
            if marker in code.co_filename:
                self.lines.add((os.path.basename(code.co_filename), lineno))
            return mon.DISABLE

        def raise_(code, offset, exc):
            if marker in code.co_filename:
                self.raises['%s:%s' % (code.co_name, type(exc).__name__)] += 1

        mon.register_callback(self.TOOL, mon.events.LINE, line)
        mon.register_callback(self.TOOL, mon.events.RAISE, raise_)
        mon.set_events(self.TOOL, mon.events.LINE | mon.events.RAISE)
        self.on = True

    def stop(self):
        if self.on:
            mon = sys.monitoring
            mon.set_events(self.TOOL, 0)
            mon.register_callback(self.TOOL, mon.events.LINE, None)
            mon.register_callback(self.TOOL, mon.events.RAISE, None)
            mon.free_tool_id(self.TOOL)
            self.on = False

    def summary(self):
        per = collections.Counter(f for f, _ in self.lines)
        return {'lines': len(self.lines), 'by_file': dict(per), 'raises': dict(self.raises)}


COVERAGE = Coverage()


# ----------------------------------------------------------------------------- calling the library
def call(f, *a, **k):
    """('ok', result) | ('exc', exception); stdout/stderr writes by the library are recorded by the proxy"""
    try:
        return ('ok', f(*a, **k))
    except StepBudgetExceeded as e:
        return ('exc', e)
    except Exception as e:  # noqa: BLE001
        return ('exc', e)


def py_candidates(lexical):
    """Python values whose natural spelling is the lexical form"""
    out = [lexical]
    v = ref.collapse(lexical)
    if re.fullmatch(r'[+-]?[0-9]+', v):
        out.append(int(v))
    if ref.DEC.fullmatch(v):
        out.append(float(v))
    return out


_VALUE_CACHE = {}


def default_value(cls):
    """an accepted Python value for an element class, derived from the reference model (cached)"""
    if cls in _VALUE_CACHE:
        return _VALUE_CACHE[cls]
    t = xsd_type_name(cls)
    cands = []
    if t in ref.ALL:
        sb = ref.simple_base(t)
        if sb is None:
            _VALUE_CACHE[cls] = None
            return None
        forms = ref.valid_forms(sb)
    else:
        forms = ref.valid_forms(t)
    for f in forms[:12]:
        for v in reversed(py_candidates(f)):
            cands.append(v)
    for v in cands:
        r = call(cls, v, xsd_check=False)
        if r[0] == 'ok':
            _VALUE_CACHE[cls] = v
            return v
    _VALUE_CACHE[cls] = None
    return None


def required_attrs(tname):
    """dict python-kw -> value for every schema-required attribute of a complex type"""
    out = {}
    if tname not in ref.ALL:
        return out
    for an, at, req in ref.attr_table(tname):
        if not req:
            continue
        if at is None:
            continue     # xml:/xlink: references: cannot be supplied through the API (known finding)
        forms = [f for f in ref.valid_forms(at) if ref.valid(at, f)]
        out[an] = forms[0] if forms else 'x'
    return out


_REQ_CACHE = {}


def has_required_attrs(cls):
    t = xsd_type_name(cls)
    return t in ref.ALL and any(req for _, _, req in ref.attr_table(t))


def make(cls, check=False, with_required=False):
    """minimal instance of cls with an accepted value (and, optionally, its schema-required attributes)"""
    v = default_value(cls)
    kw = {}
    if with_required:
        if cls not in _REQ_CACHE:
            t = xsd_type_name(cls)
            good = {}
            for an, lex in required_attrs(t).items():
                for pv in py_candidates(lex)[::-1]:
                    r = call(cls, **({'value_': v} if v is not None else {}), xsd_check=False,
                             **{an.replace('-', '_'): pv})
                    if r[0] == 'ok':
                        good[an.replace('-', '_')] = pv
                        break
            _REQ_CACHE[cls] = good
        kw = dict(_REQ_CACHE[cls])
    if v is None:
        return cls(xsd_check=check, **kw)
    return cls(v, xsd_check=check, **kw)


def names(e, ordered=True):
    return [c.name for c in e.get_children(ordered)]


def ids(e, ordered=True):
    return [id(c) for c in e.get_children(ordered)]


def verdict(e, ic=False):
    """coarse outcome of to_string(): ('ok', text) | ('missing',) | ('attr',) | ('other', class)
    NOTE: to_string may change matcher state; call it on throw-away replays or as the last action."""
    r = call(e.to_string, ic) if ic else call(e.to_string)
    if r[0] == 'ok':
        return ('ok', r[1])
    exc = r[1]
    if isinstance(exc, mex.XMLElementChildrenRequired):
        return ('missing',)
    if isinstance(exc, mex.XSDAttributeRequiredException):
        return ('attr',)
    return ('other', type(exc).__name__)


def alphabet(tname):
    return ref.DFAS[tname].alphabet
