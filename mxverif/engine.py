"""Check runner: sharding over subprocess workers, known-finding matching, replay files, evidence."""
import fnmatch
import hashlib
import importlib
import json
import os
import shutil
import subprocess
import sys
import tempfile
import time

VERIF = os.path.dirname(os.path.dirname(os.path.abspath(__file__)))
REPO = os.environ.get('VERIF_REPO', '/repo')
PY = '/venv/bin/python'
NPROC = int(os.environ.get('VERIF_JOBS', '16'))
KNOWN_FILE = os.path.join(VERIF, 'known_findings.txt')

EXIT_OK, EXIT_VIOLATION, EXIT_INCONCLUSIVE = 0, 1, 2


# ----------------------------------------------------------------------------- known findings
def load_known(path=KNOWN_FILE):
    out = []
    fixed = []
    if not os.path.exists(path):
        return out, fixed
    for ln, line in enumerate(open(path, encoding='utf-8'), 1):
        line = line.rstrip('\n')
        if not line.strip() or line.startswith('#'):
            continue
        if line.startswith('fixed:'):
            fixed.append(line)
            continue
        if not line.startswith('finding '):
            raise ValueError('known_findings.txt:%d: unrecognised line' % ln)
        head, _, rest = line.partition(' match=')
        fields = dict(kv.split('=', 1) for kv in head.split()[1:])
        mjson, _, what = rest.partition(' what=')
        out.append({'property': fields['property'], 'id': fields['id'], 'match': json.loads(mjson), 'what': what,
                    'line': ln})
    return out, fixed


def _match_value(want, got):
    if isinstance(want, dict):
        if 'subset_of' in want:            # got must be a non-empty list, subset of want['subset_of']
            if not isinstance(got, (list, tuple)) or not got:
                return False
            allowed = [json.dumps(x, sort_keys=True) for x in want['subset_of']]
            return all(json.dumps(x, sort_keys=True) in allowed for x in got)
        if 'any_of' in want:
            return any(_match_value(w, got) for w in want['any_of'])
        if 'contains' in want:
            return isinstance(got, (list, tuple)) and want['contains'] in got
        return False
    if isinstance(want, list):
        if isinstance(got, (list, tuple)):
            return list(got) == want
        return got in want
    if isinstance(want, str) and ('*' in want or '?' in want) and isinstance(got, str):
        return fnmatch.fnmatchcase(got, want)
    return want == got


def match_known(known, prop, sig):
    for k in known:
        if k['property'] != prop:
            continue
        if all(key in sig and _match_value(v, sig[key]) for key, v in k['match'].items()):
            return k
    return None


# ----------------------------------------------------------------------------- workers
def _tree_hash():
    h = hashlib.sha256()
    base = os.path.join(REPO, 'musicxml')
    for dp, dn, fn in sorted(os.walk(base)):
        dn[:] = sorted(d for d in dn if d != '__pycache__')
        for f in sorted(fn):
            if f.endswith(('.py', '.xsd')):
                p = os.path.join(dp, f)
                st = os.stat(p)
                h.update(('%s:%d:%d\n' % (p, st.st_size, st.st_mtime_ns)).encode())
    return h.hexdigest()[:16]


def worker_env(seed):
    env = dict(os.environ)
    env['PYTHONPATH'] = os.pathsep.join([REPO, VERIF])
    env['PYTHONHASHSEED'] = '0'
    env['VERIF_REPO'] = REPO
    env['VERIF_SEED'] = str(seed)
    env['MUSICXML_VERIF'] = '1'
    env['PYTHONWARNINGS'] = 'ignore'
    cache = os.path.join(VERIF, '.cache', 'pyc', _tree_hash())
    os.makedirs(cache, exist_ok=True)
    env['PYTHONPYCACHEPREFIX'] = cache
    env.pop('PYTHONDONTWRITEBYTECODE', None)
    return env


def _prune_cache():
    base = os.path.join(VERIF, '.cache', 'pyc')
    if not os.path.isdir(base):
        return
    ds = sorted((os.path.getmtime(os.path.join(base, d)), d) for d in os.listdir(base))
    for _, d in ds[:-4]:
        shutil.rmtree(os.path.join(base, d), ignore_errors=True)


def run_shards(check_name, shards, tier, seed, timeout, jobs=NPROC):
    """run shards in up to `jobs` worker subprocesses (each gets a slice); returns (results, lost)"""
    scratch = tempfile.mkdtemp(prefix='mxverif-')
    env = worker_env(seed)
    try:
        # batches (four per job, longest first) handed to a pool of `jobs` worker processes as they become free: the declared
        # shard costs are estimates, so a static split leaves most workers idle while one finishes
        # shards that observe the order of first use within a process ('fresh_process') get a process of their own
        alone = [i for i in range(len(shards)) if shards[i].get('fresh_process')]
        rest = [i for i in range(len(shards)) if not shards[i].get('fresh_process')]
        slices = [[] for _ in range(min(jobs * 4, max(1, len(rest))))]
        order = sorted(rest, key=lambda i: -shards[i].get('cost', 1))
        loads = [0] * len(slices)
        for i in order:
            j = loads.index(min(loads))
            slices[j].append(i)
            loads[j] += shards[i].get('cost', 1)
        todo = [[i] for i in alone] + [sl for _, sl in sorted(zip(loads, slices), key=lambda x: -x[0]) if sl]
        results = {}
        deadline = time.time() + timeout
        errs = []
        running = []
        nbatch = 0

        def collect(p, outp, se):
            if p.returncode not in (0, None) and se:
                errs.append(se.decode('utf-8', 'replace')[-2000:])
            if os.path.exists(outp):
                for line in open(outp):
                    try:
                        i, r = json.loads(line)
                    except ValueError:
                        continue
                    results[i] = r
        while todo or running:
            while todo and len(running) < jobs:
                sl = todo.pop(0)
                nbatch += 1
                inp = os.path.join(scratch, 'in%d.json' % nbatch)
                outp = os.path.join(scratch, 'out%d.jsonl' % nbatch)
                errp = os.path.join(scratch, 'err%d.txt' % nbatch)
                json.dump({'check': check_name, 'tier': tier, 'seed': seed,
                           'shards': [[i, shards[i]] for i in sl]}, open(inp, 'w'))
                p = subprocess.Popen([PY, '-m', 'mxverif.worker', inp, outp], env=env, cwd=VERIF,
                                     stdout=subprocess.DEVNULL, stderr=open(errp, 'wb'))
                running.append((p, outp, errp))
            still = []
            for p, outp, errp in running:
                if p.poll() is None:
                    if time.time() > deadline:
                        p.kill()
                        p.wait()
                        errs.append('worker timed out')
                        collect(p, outp, b'')
                    else:
                        still.append((p, outp, errp))
                else:
                    collect(p, outp, open(errp, 'rb').read())
            running = still
            if time.time() > deadline:
                todo = []
            if running:
                time.sleep(0.05)
        lost = [i for i in range(len(shards)) if i not in results]
        return results, lost, errs
    finally:
        shutil.rmtree(scratch, ignore_errors=True)


# ----------------------------------------------------------------------------- check driver
def run_check(check_name, tier, seed, replay=None, dump=False):
    t0 = time.time()
    mod = importlib.import_module('mxverif.checks.' + check_name.lower())
    prop = mod.PROPERTY
    if replay:
        return run_replay(mod, replay)
    _prune_cache()
    shards = mod.plan(tier, seed)
    timeout = getattr(mod, 'TIMEOUT', {}).get(tier, 900 if tier == 'quick' else 3600)
    results, lost, errs = run_shards(check_name, shards, tier, seed, timeout)
    retried = 0
    if lost:
        # one retry, each lost shard alone
        sub = [shards[i] for i in lost]
        r2, lost2, errs2 = run_shards(check_name, sub, tier, seed, timeout, jobs=min(NPROC, len(sub)))
        for k, i in enumerate(lost):
            if k in r2:
                results[i] = r2[k]
        retried = len(lost)
        lost = [lost[k] for k in lost2]
        errs += errs2
    known, fixed = load_known()
    agg = mod.aggregate([results[i] for i in sorted(results)], tier, seed) if hasattr(mod, 'aggregate') \
        else default_aggregate([results[i] for i in sorted(results)])
    violations = agg.pop('violations', [])
    hits = {}
    unknown = []
    for v in violations:
        k = match_known(known, prop, v['sig'])
        if k is None:
            unknown.append(v)
        else:
            hits.setdefault(k['id'], [k, 0])
            hits[k['id']][1] += 1
    if dump:
        seen = set()
        for v in unknown:
            key = json.dumps(v['sig'], sort_keys=True)
            if key not in seen:
                seen.add(key)
                print('SIG ' + key)
    # replays
    rdir = os.path.join(VERIF, 'replays', prop)
    shutil.rmtree(rdir, ignore_errors=True)
    lines = []
    seen_sigs = {}
    for v in unknown:
        key = json.dumps(v['sig'], sort_keys=True)
        seen_sigs.setdefault(key, []).append(v)
    nprint = 0
    for key, vs in seen_sigs.items():
        v = vs[0]
        os.makedirs(rdir, exist_ok=True)
        digest = hashlib.sha256(json.dumps([v['sig'], v.get('case')], sort_keys=True).encode()).hexdigest()[:12]
        path = os.path.join(rdir, digest + '.json')
        json.dump({'property': prop, 'check': check_name, 'sig': v['sig'], 'case': v.get('case'),
                   'detail': v.get('detail'), 'seed': seed, 'tier': tier, 'occurrences': len(vs)},
                  open(path, 'w'), indent=1, default=str)
        if nprint < 40:
            lines.append('VIOLATION property=%s replay=%s' % (prop, path))
            nprint += 1
    for kid, (k, n) in sorted(hits.items()):
        print('KNOWN-FINDING: property=%s %s [%s] (observed=%d this run)' % (prop, k['what'], kid, n))
    inconclusive = bool(lost) or agg.get('inconclusive_reason')
    evaluations = int(agg.get('evaluations', 0))
    if evaluations == 0 or agg.get('oracle_evaluations', 1) == 0:
        inconclusive = inconclusive or 'deciding monitor never evaluated'
    cov = {
        'evaluations': evaluations,
        'distinct_nontrivial': int(agg.get('distinct_nontrivial', 0)),
        'rule': getattr(mod, 'RULE', ''),
        'samples': agg.get('samples', [])[:12],
        'exhaustive': bool(agg.get('exhaustive', False)),
        'shards': len(shards), 'shards_lost': len(lost), 'shards_retried': retried,
        'known_finding_hits': {kid: n for kid, (k, n) in hits.items()},
        'unknown_violation_signatures': len(seen_sigs),
        'counters': agg.get('counters', {}),
    }
    for extra in ('coverage_lines', 'raise_sites', 'explanation', 'inconclusive_cases', 'ref_states_covered',
                  'ref_transitions_covered', 'max_steps_per_call', 'notes'):
        if extra in agg:
            cov[extra] = agg[extra]
    ev = {
        'property_id': prop, 'tier': tier, 'seed': int(seed), 'level': getattr(mod, 'LEVEL', 'exploration'),
        'coverage': cov, 'assumptions': getattr(mod, 'ASSUMPTIONS', []),
        'wall_s': round(time.time() - t0, 2), 'violations': len(unknown),
        'verdict': 'violated' if unknown else ('inconclusive' if inconclusive else 'held-on-observed'),
        'repo': REPO,
    }
    os.makedirs(os.path.join(VERIF, 'evidence'), exist_ok=True)
    with open(os.path.join(VERIF, 'evidence', prop + '.json'), 'w') as f:
        json.dump(ev, f, indent=1, default=str)
        f.write('\n')
    for e in errs[:3]:
        sys.stderr.write('worker error: %s\n' % e)
    print('%s tier=%s seed=%s evaluations=%d distinct_nontrivial=%d known=%d unknown=%d lost_shards=%d wall=%.1fs' % (
        prop, tier, seed, cov['evaluations'], cov['distinct_nontrivial'], sum(n for _, n in hits.values()),
        len(unknown), len(lost), time.time() - t0))
    for l in lines:
        print(l)
    if unknown:
        return EXIT_VIOLATION
    if inconclusive:
        print('INCONCLUSIVE property=%s reason=%s' % (prop, inconclusive if isinstance(inconclusive, str)
                                                       else 'lost shards %r' % lost))
        return EXIT_INCONCLUSIVE
    return EXIT_OK


def default_aggregate(results):
    agg = {'evaluations': 0, 'distinct_nontrivial': 0, 'violations': [], 'samples': [], 'counters': {}}
    lines = set()
    raises = {}
    for r in results:
        agg['evaluations'] += r.get('evaluations', 0)
        agg['distinct_nontrivial'] += r.get('distinct_nontrivial', 0)
        agg['violations'] += r.get('violations', [])
        if r.get('samples') and len(agg['samples']) < 12:
            agg['samples'] += r['samples'][:2]
        for k, v in r.get('counters', {}).items():
            if isinstance(v, (int, float)):
                agg['counters'][k] = agg['counters'].get(k, 0) + v
        for l in r.get('lines', []):
            lines.add(tuple(l))
        for k, v in r.get('raises', {}).items():
            raises[k] = raises.get(k, 0) + v
        if 'max_steps' in r:
            agg['max_steps_per_call'] = max(agg.get('max_steps_per_call', 0), r['max_steps'])
        if r.get('exhaustive') is False:
            agg['exhaustive'] = False
        elif r.get('exhaustive') and 'exhaustive' not in agg:
            agg['exhaustive'] = True
    if lines:
        per = {}
        for f, _ in lines:
            per[f] = per.get(f, 0) + 1
        agg['coverage_lines'] = {'distinct_lines': len(lines), 'by_file': per}
    if raises:
        agg['raise_sites'] = raises
    return agg


def run_replay(mod, path):
    env = worker_env(0)
    p = subprocess.run([PY, '-m', 'mxverif.worker', '--replay', path], env=env, cwd=VERIF)
    return p.returncode
