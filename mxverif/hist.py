"""History engine: replays operation histories on a live element with the monitors on and decides
C01 / C06 / C07 / C10 / C11 / C12(b) / C16(b) / C19 from what was observed.

ops (JSON lists):
  ['add', name, forward|None]   add_child(new(name)[, forward])
  ['rm', k]                     remove(live[k % len(live)])
  ['repself', k]                replace_child(live[k], live[k])                        (self-replacement, must be a no-op)
  ['rmgone', k]                 remove(a child that was removed / replaced earlier)   (stale handle, must fail cleanly)
  ['rep', k, name]              replace_child(live[k % len(live)], new(name))
  ['repf', k, name]             replace_child(lambda c: c is live[k], new(name))      (predicate form)
  ['repi', k, name]             replace_child(lambda c: c.name == live[k].name, new(name), index=position of live[k] among them)
  ['repa', k, name]             replace_child(lambda c: True, new(name), index=position of live[k] in the ordered view)
  ['chk', flag]                 e.xsd_check = flag      (the public setter, in the middle of a history)
  ['set', name, 'el'|'val'|'none']   e.xml_<name> = element / value / None
  ['str', ic]                   to_string(intelligent_choice=ic)
"""
import collections
import xml.etree.ElementTree as ET

from . import ref
from . import lib

STEP_BUDGET = 3_000_000


class Run:
    __slots__ = ('e', 'live', 'gone', 'failed_kids', 'status', 'exc', 'events', 'viol', 'texts', 'steps',
                 'pure_adds', 'labels_of')


CHILD_VALUE_NONE = [False]     # children of classes without character content are created with an explicit value_=None
CHILD_MOVED = [None]           # a class: children have been attached to and removed from another element of that class before


def new_child(name):
    ccls = lib.child_cls(name)
    if CHILD_VALUE_NONE[0] and lib.default_value(ccls) is None and not lib.has_required_attrs(ccls):
        return ccls(value_=None, xsd_check=False)
    k = lib.make(ccls)
    if CHILD_MOVED[0] is not None:
        donor = lib.make(CHILD_MOVED[0], check=True, with_required=True)
        if lib.call(donor.add_child, k)[0] == 'ok':
            if lib.call(donor.remove, k)[0] != 'ok' or k.get_parent() is not None:
                k = lib.make(ccls)          # the donor would not let go cleanly (that is C06 / C11 business): use a fresh child
    return k


def snapshot(e):
    return (tuple(lib.ids(e, True)), tuple(lib.ids(e, False)), dict(e.attributes), e.value_)


def _child_for_set(live, ccls):
    for c in live:
        if c.__class__ is ccls:
            return c
    return None


def replay(cls, t, hist, props=(), labels=None):
    """run hist on a fresh checked element of cls; evaluate in-line oracles for the requested properties"""
    d = ref.DFAS[t]
    r = Run()
    e = r.e = lib.make(cls, check=True, with_required=True)
    live = r.live = []
    r.gone = []
    r.failed_kids = []
    r.status = []
    r.exc = []
    r.viol = []
    r.texts = []
    r.steps = 0
    r.labels_of = {}
    pure = True          # only accepted plain additions so far (precondition of C12b)
    want06 = 'C06' in props
    want10 = 'C10' in props
    want19 = 'C19' in props
    for i, op in enumerate(hist):
        kind = op[0]
        label = labels[i] if labels else i
        before = snapshot(e) if want10 else None
        views_before = (list(e.get_children(True)), list(e.get_children(False))) \
            if want06 and kind in ('rep', 'repf', 'repi', 'repa', 'repself') else None
        nstd = len(lib.STDIO_EVENTS)
        newkid = None
        target = None
        skip = False
        lib.STEPS.begin(STEP_BUDGET)
        if kind == 'add':
            newkid = new_child(op[1])
            res = lib.call(e.add_child, newkid, op[2]) if op[2] is not None else lib.call(e.add_child, newkid)
        elif kind == 'rm':
            if not live:
                skip = True
            else:
                target = live[op[1] % len(live)]
                res = lib.call(e.remove, target)
        elif kind == 'rmgone':
            # remove() with a stale handle: a child that was removed or replaced earlier
            if not r.gone:
                skip = True
            else:
                target = r.gone[op[1] % len(r.gone)]
                res = lib.call(e.remove, target)
        elif kind == 'repself':
            # a child replaced by itself (also what e.xml_x = <the object that already is the child> does)
            if not live:
                skip = True
            else:
                target = live[op[1] % len(live)]
                res = lib.call(e.replace_child, target, target)
        elif kind == 'chk':
            res = lib.call(setattr, e, 'xsd_check', bool(op[1]))
        elif kind in ('rep', 'repf', 'repi', 'repa'):
            if not live:
                skip = True
            else:
                target = live[op[1] % len(live)]
                newkid = new_child(op[2])
                if kind == 'rep':
                    res = lib.call(e.replace_child, target, newkid)
                elif kind == 'repa':
                    allk = e.get_children(True)
                    pos = next((j for j, c in enumerate(allk) if c is target), 0)
                    res = lib.call(e.replace_child, (lambda c: True), newkid, pos)
                elif kind == 'repi':
                    same = [c for c in e.get_children(True) if c.name == target.name]
                    pos = next((j for j, c in enumerate(same) if c is target), 0)
                    res = lib.call(e.replace_child, (lambda c, _n=target.name: c.name == _n), newkid, pos)
                else:
                    res = lib.call(e.replace_child, (lambda c, _t=target: c is _t), newkid)
        elif kind == 'set':
            ccls = lib.child_cls(op[1])
            attr = 'xml_' + op[1].replace('-', '_')
            if op[2] == 'el':
                newkid = lib.make(ccls)
                val = newkid
            elif op[2] == 'val':
                val = lib.default_value(ccls)
                if val is None or lib.has_required_attrs(ccls):
                    skip = True     # a value-built child would lack its required attributes (not the parent's business)
            else:
                val = None
            if not skip:
                target = _child_for_set(live, ccls)
                res = lib.call(setattr, e, attr, val)
        elif kind == 'str':
            res = lib.call(e.to_string, True) if op[1] else lib.call(e.to_string)
        else:
            raise ValueError(op)
        r.steps = max(r.steps, lib.STEPS.end())
        if skip:
            r.status.append('skip'); r.exc.append(None)
            continue
        ok = res[0] == 'ok'
        exc = None if ok else res[1]
        r.status.append('ok' if ok else type(exc).__name__)
        r.exc.append(exc)
        # ---------------- shadow model (M-shadow), from API results only
        if ok:
            if kind == 'add':
                live.append(newkid); r.labels_of[id(newkid)] = label
            elif kind == 'rm':
                live.remove(target); r.gone.append(target)
            elif kind == 'rmgone':
                if want06:
                    r.viol.append(('C06', 'stale-remove-accepted', i, {'child': target.name}))
            elif kind in ('rep', 'repf', 'repi', 'repa'):
                live[live.index(target)] = newkid; r.gone.append(target); r.labels_of[id(newkid)] = label
            elif kind == 'set':
                if op[2] == 'el':
                    if target is not None:
                        live[live.index(target)] = newkid; r.gone.append(target)
                    else:
                        live.append(newkid)
                    r.labels_of[id(newkid)] = label
                elif op[2] == 'val':
                    if target is None:
                        lid = set(map(id, live))
                        fresh = [c for c in e.get_children(False) if id(c) not in lid]
                        if len(fresh) == 1:
                            live.append(fresh[0]); r.labels_of[id(fresh[0])] = label
                        elif want06:
                            r.viol.append(('C06', 'shortcut-created-%d-children' % len(fresh), i, {}))
                else:
                    if target is not None:
                        live.remove(target); r.gone.append(target)
            if kind != 'add':
                pure = False
        else:
            if newkid is not None:
                r.failed_kids.append(newkid)
        # ---------------- C19: exception classes, stdio, step budget
        if want19:
            if exc is not None:
                c = lib.classify_exception(exc, dot_name=(kind == 'set'))
                if c != 'documented':
                    r.viol.append(('C19', c, i, {'site': lib.raise_site(exc), 'op': kind}))
            if len(lib.STDIO_EVENTS) > nstd:
                for ev in lib.STDIO_EVENTS[nstd:]:
                    r.viol.append(('C19', 'stdio:' + ev[0], i, {'site': ev[1], 'op': kind, 'text': ev[2]}))
        # ---------------- C06: a successful replacement puts the new child exactly where the old one was, in both views
        if want06 and views_before is not None and ok and target is not None:
            sub = newkid if kind != 'repself' else target
            for which, bef, now in (('ordered', views_before[0], e.get_children(True)),
                                    ('insertion', views_before[1], e.get_children(False))):
                if [id(sub) if x is target else id(x) for x in bef] != [id(x) for x in now]:
                    r.viol.append(('C06', 'replacement-changes-position', i, {'view': which, 'before': [x.name for x in bef],
                                                                              'after': [x.name for x in now]}))
                    break
        # ---------------- C06 invariants at the boundary of the public call (also on the raise path)
        if want06:
            v = c06_invariants(e, live, r.gone)
            if v:
                r.viol.append(('C06', v[0], i, v[1]))
        # ---------------- C10 in-place snapshot around a raising call
        if want10 and exc is not None:
            after = snapshot(e)
            if after != before:
                what = [n for n, a, b in zip(('ordered-view', 'insertion-view', 'attributes', 'value'), before, after)
                        if a != b]
                r.viol.append(('C10', 'snapshot:' + '+'.join(what), i, {'exc': type(exc).__name__,
                                                                         'site': lib.raise_site(exc)}))
            elif newkid is not None and newkid.get_parent() is not None:
                r.viol.append(('C10', 'snapshot:failed-child-has-parent', i, {'exc': type(exc).__name__}))
        # ---------------- C07 / C12b around additions
        adds_child = kind == 'add' or (kind == 'set' and op[2] in ('el', 'val') and target is None)
        if adds_child and ok and 'C07' in props:
            ms = [c.name for c in live]
            if not d.super_word_exists(ms):
                r.viol.append(('C07', 'dead-end', i, {'holds': sorted(ms), 'added': op[1]}))
        if kind == 'add' and op[2] is None and not ok and pure and 'C12' in props \
                and lib.classify_exception(exc) == 'documented' and op[1] in d.alpha:
            ms = [c.name for c in live] + [op[1]]
            if d.super_word_exists(ms):
                r.viol.append(('C12', 'rejected-compatible', i, {'holds': sorted(c.name for c in live),
                                                               'offered': op[1], 'exc': type(exc).__name__}))
        if kind != 'add' or not ok:
            pure = False
        # ---------------- M-out on a normal return of to_string
        if kind == 'str' and ok:
            r.texts.append((i, res[1]))
            if 'C01' in props or want06 or 'C16' in props:
                try:
                    root = ET.fromstring(res[1])
                    tags = [c.tag for c in root]
                except ET.ParseError as err:
                    if 'C16' in props:
                        r.viol.append(('C16', 'unparsable', i, {'err': str(err)}))
                    tags = None
                if tags is not None:
                    if 'C01' in props and e.xsd_check and not d.accepts(tags):
                        r.viol.append(('C01', 'invalid-word', i, {'word': tags}))
                    if want06 and collections.Counter(tags) != collections.Counter(c.name for c in live):
                        r.viol.append(('C06', 'output-count', i, {'output': tags, 'model': [c.name for c in live]}))
    return r


def c06_invariants(e, live, gone):
    o = e.get_children(True)
    u = e.get_children(False)
    lid = sorted(map(id, live))
    if sorted(map(id, o)) != sorted(map(id, u)):
        return ('views-differ', {'ordered': [c.name for c in o], 'insertion': [c.name for c in u]})
    if sorted(map(id, u)) != lid:
        return ('views-vs-model', {'views': [c.name for c in u], 'model': [c.name for c in live]})
    for c in live:
        if c.get_parent() is not e:
            return ('child-parent-wrong', {'child': c.name})
    for c in gone:
        if c.get_parent() is not None:
            return ('removed-child-has-parent', {'child': c.name})
    # the other public accessors must tell the same story as the two views
    for c in live:
        if c.up is not e:
            return ('child-parent-wrong', {'child': c.name, 'accessor': 'up'})
    for cn in {c.__class__.__name__ for c in live}:
        if [id(x) for x in e.find_children(cn, ordered=True)] != [id(x) for x in o if x.__class__.__name__ == cn] or \
                [id(x) for x in e.find_children(cn)] != [id(x) for x in u if x.__class__.__name__ == cn]:
            return ('accessor-disagrees-with-views', {'accessor': 'find_children', 'class': cn})
        first = next(x for x in u if x.__class__.__name__ == cn)
        if e.find_child(cn) is not first:
            return ('accessor-disagrees-with-views', {'accessor': 'find_child', 'class': cn})
    if live and not {c.name for c in live} <= set(e.possible_children_names):
        return ('accessor-disagrees-with-views', {'accessor': 'possible_children_names'})
    return None


# --------------------------------------------------------------------------------------- observations
_OBS_CACHE = {}


def observe(cls, t, hist, with_vector=True, ic=False):
    """observable behaviour of the element reached by hist (each probe on a throw-away replay); memoised"""
    key = (cls.__name__, case_string(hist), ic)
    o = _OBS_CACHE.get(key)
    if o is None:
        r = replay(cls, t, hist)
        o = {'status': list(r.status), 'ordered': lib.names(r.e, True), 'insertion': lib.names(r.e, False),
             'same_name_order': _labels_in_order(r)}
        v = lib.verdict(r.e, ic)
        o['verdict'] = v[0] if v[0] != 'other' else 'other:' + v[1]
        o['text'] = v[1] if v[0] == 'ok' else None
        if len(_OBS_CACHE) > 20000:
            _OBS_CACHE.clear()
        _OBS_CACHE[key] = o
    if with_vector and 'accept' not in o:
        vec = []
        for s in vector_symbols(t):
            r2 = replay(cls, t, list(hist) + [['add', s, None]])
            vec.append(r2.status[-1] == 'ok')
        o['accept'] = vec
    return o


VECTOR_LIMIT = [None]        # quick tiers bound the acceptance vector for large alphabets (set by the check driver)


def vector_symbols(t):
    """symbols probed by the acceptance vector: the whole alphabet, or an evenly spread subset of it when a limit is set"""
    alpha = ref.DFAS[t].alphabet
    lim = VECTOR_LIMIT[0]
    if lim is None or len(alpha) <= lim:
        return alpha
    step = len(alpha) / float(lim)
    return [alpha[int(i * step)] for i in range(lim)]


def observe_pair(cls, t, h1, h2):
    """observations of two histories; acceptance vectors only when the cheap observables agree"""
    a = observe(cls, t, h1, with_vector=False)
    b = observe(cls, t, h2, with_vector=False)
    if a['ordered'] == b['ordered'] and a['insertion'] == b['insertion'] and a['verdict'] == b['verdict'] \
            and a['text'] == b['text']:
        a = observe(cls, t, h1, with_vector=True)
        b = observe(cls, t, h2, with_vector=True)
    else:
        a = {k: v for k, v in a.items() if k != 'accept'}
        b = {k: v for k, v in b.items() if k != 'accept'}
    return a, b


def _labels_in_order(r):
    return [r.labels_of.get(id(c)) for c in r.e.get_children(True)]


def diff_obs(a, b, t, compare_status=None):
    """kinds of observable difference between observation a (subject) and b (twin)"""
    out = []
    if a['ordered'] != b['ordered'] or a['insertion'] != b['insertion']:
        out.append('views')
    if a['verdict'] != b['verdict']:
        out.append('verdict:%s->%s' % (b['verdict'], a['verdict']))
    elif a['text'] != b['text']:
        out.append('text')
    if 'accept' in a and 'accept' in b and a['accept'] != b['accept']:
        alpha = vector_symbols(t)
        lost = [s for s, x, y in zip(alpha, a['accept'], b['accept']) if y and not x]
        gained = [s for s, x, y in zip(alpha, a['accept'], b['accept']) if x and not y]
        if lost:
            out.append('acceptance-lost')
        if gained:
            out.append('acceptance-gained')
    return out


# --------------------------------------------------------------------------------------- twin oracles
def twin_c10(cls, t, hist, r=None):
    """failed operations left out: the rest must behave identically (C10)"""
    if r is None:
        r = replay(cls, t, hist)
    failed = [i for i, s in enumerate(r.status) if s not in ('ok', 'skip')]
    if not failed:
        return None
    keep = [i for i in range(len(hist)) if i not in failed]
    sub = [hist[i] for i in keep]
    a, b = observe_pair(cls, t, hist, sub)
    sa = [a['status'][i] for i in keep]
    kinds = []
    if [s == 'ok' for s in sa] != [s == 'ok' for s in b['status']]:
        kinds.append('later-op-differs')
    kinds += diff_obs(a, b, t)
    if not kinds and len(failed) >= 2:
        # several calls failed: a later failure may itself be the consequence of the first one. Leave out only the first
        # failed call; every other call (also the ones that fail legitimately) must then end the same way
        keep1 = [i for i in range(len(hist)) if i != failed[0]]
        sub1 = [hist[i] for i in keep1]
        a1, b1 = observe_pair(cls, t, hist, sub1)
        if [a1['status'][i] == 'ok' for i in keep1] != [s == 'ok' for s in b1['status']]:
            kinds.append('later-op-differs')
        kinds += [k for k in diff_obs(a1, b1, t) if k not in kinds]
    if kinds:
        return (['twin:' + k for k in kinds], {'failed_ops': [hist[i] for i in failed],
                                              'failed_status': [r.status[i] for i in failed]})
    return None


def twin_c16(cls, t, hist, r=None):
    """serialisation calls left out: the rest must behave identically (C16 side-effect freedom)"""
    if r is None:
        r = replay(cls, t, hist)
    strs = [i for i, op in enumerate(hist) if op[0] == 'str' and r.status[i] == 'ok']
    if not strs:
        return None
    keep = [i for i in range(len(hist)) if i not in strs]
    sub = [hist[i] for i in keep]
    a, b = observe_pair(cls, t, hist, sub)
    kinds = []
    if [a['status'][i] == 'ok' for i in keep] != [s == 'ok' for s in b['status']]:
        kinds.append('later-op-differs')
    kinds += diff_obs(a, b, t)
    if kinds:
        return (['serialisation-side-effect:' + k for k in kinds], {'ic': sorted({bool(hist[i][1]) for i in strs})})
    return None


def twin_c11(cls, t, hist, r=None):
    """fresh element given only the survivors in the same relative order (C11)"""
    if r is None:
        r = replay(cls, t, hist)
    if any(s not in ('ok', 'skip') for s in r.status):
        return None
    if not any(op[0] == 'rm' or (op[0] == 'set' and op[2] == 'none') for op, s in zip(hist, r.status) if s == 'ok'):
        return None
    survivors = [c.name for c in r.live]
    sub = [['add', n, None] for n in survivors]
    b = observe(cls, t, sub, with_vector=False)
    if any(s != 'ok' for s in b['status']):
        return ('inconclusive', {'twin_refuses': survivors})
    a, b = observe_pair(cls, t, hist, sub)
    kinds = diff_obs(a, b, t)
    kinds = [k for k in kinds if k != 'views'] + (['order'] if a['ordered'] != b['ordered'] else [])
    if kinds:
        return (['removal-residue:' + k for k in kinds], {'survivors': survivors})
    return None


# --------------------------------------------------------------------------------------- classification
def mech_class(t, hist, status):
    """mechanism class of a (minimal) witness, by precedence (DESIGN 6.2)"""
    for op, s in zip(hist, status):
        if op[0] in ('rep', 'repf', 'repi', 'repa') and s == 'ok':
            return 'replace'
    if any(s not in ('ok', 'skip') for s in status):
        return 'failed-op'
    for op, s in zip(hist, status):
        if s == 'ok' and (op[0] == 'rm' or (op[0] == 'set' and op[2] == 'none')):
            return 'removal'
    for op in hist:
        if op[0] == 'add' and op[2] is not None:
            return 'forward'
    for op in hist:
        if op[0] == 'set':
            return 'shortcut'
    return 'plain'


def failed_pairs(hist, status):
    return sorted({'%s:%s' % (op[0] + ('-forward' if op[0] == 'add' and op[2] is not None else ''), s)
                   for op, s in zip(hist, status) if s not in ('ok', 'skip')})


def case_string(hist):
    out = []
    for op in hist:
        if op[0] == 'add':
            out.append('add:%s' % op[1] + ('' if op[2] is None else '@%d' % op[2]))
        elif op[0] == 'rm':
            out.append('rm:%d' % op[1])
        elif op[0] == 'rmgone':
            out.append('rmgone:%d' % op[1])
        elif op[0] == 'repself':
            out.append('repself:%d' % op[1])
        elif op[0] in ('rep', 'repf', 'repi', 'repa'):
            out.append('%s:%d>%s' % (op[0], op[1], op[2]))
        elif op[0] == 'chk':
            out.append('chk:%d' % (1 if op[1] else 0))
        elif op[0] == 'set':
            out.append('set:%s=%s' % (op[1], op[2]))
        elif op[0] == 'str':
            out.append('str:%d' % (1 if op[1] else 0))
    return ';'.join(out)


def canonical(hist):
    """normalise rm/rep indices modulo the number of live children so equal witnesses get equal case strings"""
    out = []
    nlive_upper = 0
    for op in hist:
        op = list(op)
        out.append(op)
    return out


CORE_OPS = 3


def decide(cls, t, hist, props):
    """all violations of the requested properties on this history: list of (prop, kind, detail)"""
    r = replay(cls, t, hist, props)
    out = [(p, k, dict(dt, at=i)) for p, k, i, dt in r.viol]
    # a twin may differ in several observables at once: one violation per atomic kind
    if 'C10' in props:
        v = twin_c10(cls, t, hist, r)
        if v:
            out += [('C10', k, v[1]) for k in v[0]]
    if 'C11' in props:
        v = twin_c11(cls, t, hist, r)
        if v and v[0] != 'inconclusive':
            out += [('C11', k, v[1]) for k in v[0]]
        elif v:
            r.viol.append(('C11', 'inconclusive', len(hist) - 1, v[1]))
    if 'C16' in props:
        v = twin_c16(cls, t, hist, r)
        if v:
            out += [('C16', k, v[1]) for k in v[0]]
    return out, r


def shrink(cls, t, hist, prop, kind, max_runs=300):
    """delta-debugging: drop one op at a time while the same (property, kind) is still violated"""
    hist = [list(op) for op in hist]
    runs = 0
    if len(hist) > 40:
        # long histories: drop chunks first (halves ... eighths of what is left, never below 8 operations at a time); what is
        # still long afterwards (a defect that needs the length) is kept as it is
        size = len(hist) // 2
        while size >= 8 and runs < 60:
            i = 0
            while i < len(hist) and runs < 60:
                h2 = hist[:i] + hist[i + size:]
                runs += 1
                if h2 and any(p == prop and k == kind for p, k, _ in decide(cls, t, h2, (prop,))[0]):
                    hist = h2
                else:
                    i += size
            size //= 2
        if len(hist) > 60:
            return hist
    changed = True
    while changed and runs < max_runs:
        changed = False
        for i in range(len(hist) - 1, -1, -1):
            h2 = hist[:i] + hist[i + 1:]
            if not h2:
                continue
            runs += 1
            vs, _ = decide(cls, t, h2, (prop,))
            if any(p == prop and k == kind for p, k, _ in vs):
                hist = h2
                changed = True
                break
    return hist


C11_CORE_SHAPES = ('add;rm', 'add;add;rm', 'add;rm;add')


def is_restore_shape(hist):
    """additions, one removal, one addition of the removed child's name"""
    if len(hist) < 4 or hist[-1][0] != 'add' or hist[-2][0] != 'rm' or any(op[0] != 'add' or op[2] is not None for op in hist[:-2]):
        return False
    return hist[-1][2] is None and hist[-1][1] == hist[hist[-2][1] % (len(hist) - 2)][1]


def canonical_rm(hist):
    out = []
    nlive = 0
    for op in hist:
        op = list(op)
        if op[0] == 'add':
            nlive += 1
        elif op[0] == 'rm' and nlive:
            op[1] = op[1] % nlive
            nlive -= 1
        out.append(op)
    return out


def shape(hist):
    return ';'.join(op[0] + ('-forward' if op[0] == 'add' and op[2] is not None else '') for op in hist)


def signature(t, hist, status, prop, kind, detail):
    """signature of a minimal witness (DESIGN 6.2); what it contains depends on the property"""
    sig = {'type': t, 'kind': kind}
    if prop == 'C19':
        # the escaping exception / the write is the violation itself: keyed by call site
        sig['site'] = detail.get('site')
        sig['op'] = detail.get('op')
        return sig
    if prop == 'C12':
        sig['exc'] = detail.get('exc')
        if len(hist) <= CORE_OPS:
            sig['layer'] = 'core'
            sig['case'] = case_string(hist)
        else:
            sig['layer'] = 'halo'
            sig['offered'] = detail.get('offered')
        return sig
    mech = mech_class(t, hist, status)
    sig['mech'] = mech
    if prop == 'C16' and 'ic' in detail:
        sig['intelligent_choice'] = 'on' if True in detail['ic'] else 'off'
    if mech == 'failed-op':
        sig['failed'] = failed_pairs(hist, status)
    if detail.get('site'):
        sig['site'] = detail['site']
    if prop == 'C11' and shape(hist) in C11_CORE_SHAPES and all(x == 'ok' for x in status):
        # pure addition / removal shapes of at most three operations are enumerated exhaustively by the C11 core in both
        # tiers: judged by exact case (removal indices reduced modulo the number of live children)
        sig = {'type': t, 'kind': kind, 'layer': 'core', 'case': case_string(canonical_rm(hist))}
        return sig
    if mech == 'plain':
        # additions (and serialisations) only: the <=3-operation scope is enumerated exhaustively by the cores,
        # so short witnesses are judged by exact case
        if len(hist) <= CORE_OPS:
            sig['layer'] = 'core'
            sig['case'] = case_string(hist)
        else:
            sig['layer'] = 'halo'
            sig['shape'] = shape(hist) if len(hist) <= 6 else 'long'
    else:
        sig['shape'] = shape(hist) if len(hist) <= 4 else 'long'
    return sig


def nontrivial(prop, hist, r):
    """did this history actually exercise the deciding oracle of the property?"""
    ok = [s == 'ok' for s in r.status]
    failed = [s not in ('ok', 'skip') for s in r.status]
    if prop in ('C01', 'C16'):
        return bool(r.texts)
    if prop == 'C07':
        return any(o and (op[0] == 'add' or (op[0] == 'set' and op[2] != 'none')) for op, o in zip(hist, ok))
    if prop == 'C10':
        return any(failed)
    if prop == 'C11':
        return not any(failed) and any(o and (op[0] == 'rm' or (op[0] == 'set' and op[2] == 'none'))
                                       for op, o in zip(hist, ok))
    if prop == 'C12':
        return any(f and op[0] == 'add' for op, f in zip(hist, failed))
    return len(hist) >= 1


class Collector:
    """collects violations of one property over many histories; shrinks witnesses before classification"""

    def __init__(self, cls, t, prop, props=None, shrink_per_presig=3):
        self.cls, self.t, self.prop = cls, t, prop
        self.props = tuple(props or (prop,))
        self.viol = []
        self.presig_count = collections.Counter()
        self.shrink_per_presig = shrink_per_presig
        self.evals = 0
        self.seen = set()
        self.nontrivial = 0
        self.samples = []
        self.counters = collections.Counter()
        self.max_steps = 0

    def run(self, hist, core=False):
        key = case_string(hist)
        if key in self.seen:
            return
        self.seen.add(key)
        self.evals += 1
        vs, r = decide(self.cls, self.t, hist, self.props)
        if nontrivial(self.prop, hist, r):
            self.nontrivial += 1
            if len(self.samples) < 2 and len(hist) >= 2:
                self.samples.append({'type': self.t, 'history': key, 'status': list(r.status)})
        self.max_steps = max(self.max_steps, r.steps)
        c = self.counters
        c['ops'] += len(hist)
        c['ops_failed'] += sum(1 for s in r.status if s not in ('ok', 'skip'))
        c['ops_ok'] += sum(1 for s in r.status if s == 'ok')
        c['serialisations_ok'] += len(r.texts)
        if any(p == 'C11' and k == 'inconclusive' for p, k, _, _ in r.viol):
            c['inconclusive_twin_refuses'] += 1
        done = set()
        for p, kind, detail in vs:
            if p != self.prop or (kind, detail.get('site')) in done:
                continue
            done.add((kind, detail.get('site')))
            h = hist
            status = r.status
            if 'at' in detail:                      # in-line verdict: the prefix up to the operation is the witness
                h = hist[:detail['at'] + 1]
                status = r.status[:detail['at'] + 1]
            if p == 'C19':
                sig = signature(self.t, h, status, p, kind, detail)
                self.viol.append({'sig': sig, 'case': {'type': self.t, 'hist': h}, 'detail': detail})
                continue
            if len(h) <= CORE_OPS:
                sig = signature(self.t, h, status, p, kind, detail)
                self.viol.append({'sig': sig, 'case': {'type': self.t, 'hist': h}, 'detail': detail})
                continue
            if core and p == 'C11' and is_restore_shape(h) and all(x == 'ok' for x in status):
                # the remove-and-restore core is seed independent and enumerated in both tiers: judged by exact case, unshrunk
                sig = {'type': self.t, 'kind': kind, 'layer': 'restore', 'case': case_string(canonical_rm(h))}
                self.viol.append({'sig': sig, 'case': {'type': self.t, 'hist': h}, 'detail': detail})
                continue
            pre = (kind, mech_class(self.t, h, status), tuple(failed_pairs(h, status)), detail.get('site'))
            self.presig_count[pre] += 1
            if self.presig_count[pre] <= self.shrink_per_presig:
                h2 = shrink(self.cls, self.t, h, p, kind)
                c['shrunk'] += 1
                vs2, r2 = decide(self.cls, self.t, h2, (p,))
                d2 = next((dd for pp, kk, dd in vs2 if pp == p and kk == kind), detail)
                sig = signature(self.t, h2, r2.status, p, kind, d2)
                self.viol.append({'sig': sig, 'case': {'type': self.t, 'hist': h2, 'from': key}, 'detail': d2})
            else:
                c['unshrunk_same_presignature'] += 1

    def result(self, extra=None):
        out = {'evaluations': self.evals, 'distinct_nontrivial': self.nontrivial, 'violations': self.viol,
               'samples': self.samples, 'max_steps': self.max_steps,
               'counters': dict(self.counters, stdio_events=len(lib.STDIO_EVENTS))}
        if extra:
            out.update(extra)
        return out
