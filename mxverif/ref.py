"""Independent reference model of MusicXML 4.0 built from /verif/ref/*.xsd with xml.etree only.

Imports nothing from musicxml.  Provides content-model automata, attribute tables, simple-type
lexical validation, a document validator and generators of valid / near-miss values.
"""
import collections
import decimal
import functools
import hashlib
import os
import re
import xml.etree.ElementTree as ET

from . import automata

HERE = os.path.dirname(os.path.abspath(__file__))
REFDIR = os.path.join(os.path.dirname(HERE), 'ref')
XS = '{http://www.w3.org/2001/XMLSchema}'
XMLNS = 'http://www.w3.org/XML/1998/namespace'
XLNS = 'http://www.w3.org/1999/xlink'
PINNED_SHA = {
    'musicxml_4_0.xsd': '88a9784e81442e652a51f3c200011a6c36483ad909e97fbe257daaac6475873a',
    'xml.xsd': 'b2280aa5cb07d305dfa166fb37e5018da1df8ca23ec13f6964959ddaf665dd84',
}


def _load(name):
    path = os.path.join(REFDIR, name)
    data = open(path, 'rb').read()
    if hashlib.sha256(data).hexdigest() != PINNED_SHA[name]:
        raise RuntimeError('reference schema %s does not match pinned hash' % name)
    return ET.fromstring(data)


root = _load('musicxml_4_0.xsd')
xml_root = _load('xml.xsd')

groups = {g.get('name'): g for g in root.findall(XS + 'group')}
ctypes = {c.get('name'): c for c in root.findall(XS + 'complexType')}
stypes = {c.get('name'): c for c in root.findall(XS + 'simpleType')}
agroups = {c.get('name'): c for c in root.findall(XS + 'attributeGroup')}
xml_stypes = {'xs:' + c.get('name'): c for c in xml_root.findall(XS + 'simpleType')}


def _ltag(n):
    return n.tag[len(XS):] if n.tag.startswith(XS) else n.tag


def _occ(n):
    mi = int(n.get('minOccurs', '1'))
    ma = n.get('maxOccurs', '1')
    return mi, (None if ma == 'unbounded' else int(ma))


def particle(n):
    tag = _ltag(n)
    mi, ma = _occ(n)
    if tag == 'element':
        p = ('el', n.get('name'))
    elif tag in ('sequence', 'choice'):
        kids = [particle(c) for c in n if _ltag(c) in ('element', 'sequence', 'choice', 'group')]
        p = ('seq' if tag == 'sequence' else 'cho', kids)
    elif tag == 'group':
        g = groups[n.get('ref')]
        inner = [c for c in g if _ltag(c) in ('sequence', 'choice')]
        assert len(inner) == 1
        p = particle(inner[0])
    else:
        raise ValueError(tag)
    if (mi, ma) != (1, 1):
        p = ('rep', p, mi, ma)
    return p


def content_particle(ct):
    for c in ct:
        t = _ltag(c)
        if t in ('sequence', 'choice', 'group'):
            return particle(c)
        if t == 'complexContent':
            ext = c[0]
            base = ctypes[ext.get('base')]
            bp = content_particle(base)
            extra = [particle(x) for x in ext if _ltag(x) in ('sequence', 'choice', 'group')]
            if extra:
                return ('seq', [bp] + extra) if bp else extra[0]
            return bp
    return None


def _anon_types():
    sp = root.find(XS + "element[@name='score-partwise']")
    t1 = sp.find(XS + 'complexType')
    part = t1.find('.//' + XS + "element[@name='part']")
    t2 = part.find(XS + 'complexType')
    meas = t2.find('.//' + XS + "element[@name='measure']")
    t3 = meas.find(XS + 'complexType')
    d = ctypes['attributes'].find('.//' + XS + "element[@name='directive']").find(XS + 'complexType')
    return {'score-partwise@': t1, 'part@': t2, 'measure@': t3, 'directive@': d}


ANON = _anon_types()
ANON_OF_ELEMENT = {'score-partwise': 'score-partwise@', 'part': 'part@', 'measure': 'measure@',
                   'directive': 'directive@'}
ALL = dict(ctypes)
ALL.update(ANON)                                   # 228 complex types
MODELS = {n: content_particle(c) for n, c in ALL.items()}
DFAS = {n: automata.DFA(p) for n, p in MODELS.items() if p}     # 94 types with element content
EMPTY_DFA = automata.DFA(None)

# ------------------------------------------------------------------ element declarations
# timewise declarations are not part of the partwise schema
_tw = root.find(XS + "element[@name='score-timewise']")
_tw_nodes = set(id(e) for e in _tw.iter()) if _tw is not None else set()
ELEMENT_DECLS = [e for e in root.iter(XS + 'element') if id(e) not in _tw_nodes and e.get('name')]
ELS = {}
ELS_ALL = collections.defaultdict(list)
for _e in ELEMENT_DECLS:
    ELS.setdefault(_e.get('name'), _e)
    ELS_ALL[_e.get('name')].append(_e)
ELEMENT_NAMES = sorted(ELS)


def eltype(name):
    """declared type name of an element ('x@' for the four anonymous types)"""
    e = ELS[name]
    t = e.get('type')
    if t is None:
        return ANON_OF_ELEMENT[name]
    return t


def is_complex(tname):
    return tname in ALL


# ------------------------------------------------------------------ attribute tables
XLINK_ATTRS = {
    'xlink:href': ('xs:anyURI', None), 'xlink:type': (None, ['simple']),
    'xlink:role': ('xs:token', None), 'xlink:title': ('xs:token', None),
    'xlink:show': (None, ['new', 'replace', 'embed', 'other', 'none']),
    'xlink:actuate': (None, ['onRequest', 'onLoad', 'other', 'none']),
}


@functools.lru_cache(maxsize=None)
def attr_table(tname):
    """tuple of (name, simple type name or None for refs, required) for a complex type"""
    out = []

    def walk(n):
        for c in n:
            t = _ltag(c)
            if t == 'attribute':
                if c.get('ref'):
                    out.append((c.get('ref'), None, c.get('use') == 'required'))
                else:
                    out.append((c.get('name'), c.get('type'), c.get('use') == 'required'))
            elif t == 'attributeGroup':
                walk(agroups[c.get('ref')])
            elif t in ('simpleContent', 'complexContent'):
                ext = c[0]
                b = ext.get('base')
                if b in ctypes:
                    walk(ctypes[b])
                walk(ext)
    walk(ALL[tname])
    return tuple(out)


def attr_valid(aname, atype, value):
    """lexical validity of an attribute value"""
    if atype is not None:
        return valid(atype, value)
    if aname == 'xml:lang':
        return valid('xs:language', value) or value == ''
    if aname == 'xml:space':
        return collapse(value) in ('default', 'preserve')
    if aname in XLINK_ATTRS:
        t, enum = XLINK_ATTRS[aname]
        if enum is not None:
            return collapse(value) in enum
        return valid(t, value)
    raise KeyError(aname)


@functools.lru_cache(maxsize=None)
def simple_base(tname):
    """simple-content base type name of a complex type (resolved through complex bases) or None"""
    ct = ALL[tname]
    for c in ct:
        if c.tag == XS + 'simpleContent':
            b = c[0].get('base')
            while b in ctypes:
                nb = None
                for cc in ctypes[b]:
                    if cc.tag == XS + 'simpleContent':
                        nb = cc[0].get('base')
                b = nb
            return b
    return None


# ------------------------------------------------------------------ simple types
NAMECHAR = "[-.0-9:A-Z_a-z·À-ÖØ-öø-ͽͿ-῿‌-‍‿⁀⁰-↏Ⰰ-⿯、-퟿豈-﷏ﷰ-�\U00010000-\U000EFFFF]"
NAMESTART = "[:A-Z_a-zÀ-ÖØ-öø-˿Ͱ-ͽͿ-῿‌-‍⁰-↏Ⰰ-⿯、-퟿豈-﷏ﷰ-�\U00010000-\U000EFFFF]"
NC_NAMECHAR = NAMECHAR.replace(':', '', 1)
NC_NAMESTART = NAMESTART.replace(':', '', 1)


@functools.lru_cache(maxsize=None)
def xsd_re(p):
    p = p.replace('[\\i-[:]]', NC_NAMESTART).replace('[\\c-[:]]', NC_NAMECHAR)
    p = p.replace('\\c', NAMECHAR).replace('\\i', NAMESTART)
    return re.compile(p)


DEC = re.compile(r'[+-]?([0-9]+(\.[0-9]*)?|\.[0-9]+)')
INT = re.compile(r'[+-]?[0-9]+')
DATE = r'-?[0-9]{4,}-(0[1-9]|1[0-2])-(0[1-9]|[12][0-9]|3[01])(Z|[+-]([01][0-9]|2[0-3]):[0-5][0-9]|[+-]14:00)?'
BUILTIN = {
    'xs:string': dict(ws='preserve'),
    'xs:token': dict(ws='collapse'),
    'xs:decimal': dict(ws='collapse', num=DEC),
    'xs:integer': dict(ws='collapse', num=INT),
    'xs:nonNegativeInteger': dict(ws='collapse', num=INT, min=0),
    'xs:positiveInteger': dict(ws='collapse', num=INT, min=1),
    'xs:anyURI': dict(ws='collapse'),
    'xs:date': dict(ws='collapse', pat=[DATE]),
}
NUMERIC_BUILTINS = {'xs:decimal', 'xs:integer', 'xs:nonNegativeInteger', 'xs:positiveInteger'}


def collapse(s):
    return ' '.join(s.replace('\t', ' ').replace('\n', ' ').replace('\r', ' ').split(' ')).strip() \
        if False else ' '.join(x for x in re.split(r'[ \t\n\r]+', s) if x)


def _stnode(tname):
    if tname in xml_stypes:
        return xml_stypes[tname]
    return stypes[tname]


@functools.lru_cache(maxsize=None)
def wsof(t):
    if t in BUILTIN:
        return BUILTIN[t]['ws']
    st = _stnode(t)
    r = st.find(XS + 'restriction')
    if r is None:
        return 'collapse'
    return wsof(r.get('base'))


def _days_ok(v):
    m = re.match(r'(-?[0-9]{4,})-([0-9]{2})-([0-9]{2})', v)
    if not m:
        return False
    y, mo, d = int(m.group(1)), int(m.group(2)), int(m.group(3))
    dim = [31, 29 if (y % 4 == 0 and (y % 100 != 0 or y % 400 == 0)) else 28, 31, 30, 31, 30, 31, 31, 30, 31, 30, 31]
    return 1 <= mo <= 12 and 1 <= d <= dim[mo - 1]


def valid(tname, s, node=None):
    """lexical validity of string s for a simple type (name, 'xs:...' or an inline simpleType node)"""
    if node is None and tname in BUILTIN:
        b = BUILTIN[tname]
        v = collapse(s) if b['ws'] == 'collapse' else s
        if 'num' in b:
            if not b['num'].fullmatch(v):
                return False
            if 'min' in b and decimal.Decimal(v) < b['min']:
                return False
        for p in b.get('pat', []):
            if not re.fullmatch(p, v):
                return False
        if tname == 'xs:date' and not _days_ok(v):
            return False
        return True
    st = node if node is not None else _stnode(tname)
    u = st.find(XS + 'union')
    if u is not None:
        for m in (u.get('memberTypes') or '').split():
            if valid(m, s):
                return True
        for inl in u.findall(XS + 'simpleType'):
            if valid(None, s, inl):
                return True
        return False
    r = st.find(XS + 'restriction')
    base = r.get('base')
    if not valid(base, s):
        return False
    ws = wsof(base)
    v = collapse(s) if ws == 'collapse' else s
    enums = [e.get('value') for e in r.findall(XS + 'enumeration')]
    if enums and v not in enums:
        return False
    for p in r.findall(XS + 'pattern'):
        if not xsd_re(p.get('value')).fullmatch(v):
            return False
    for tag, op in (('minInclusive', lambda x, b: x >= b), ('maxInclusive', lambda x, b: x <= b),
                    ('minExclusive', lambda x, b: x > b), ('maxExclusive', lambda x, b: x < b)):
        f = r.find(XS + tag)
        if f is not None and not op(decimal.Decimal(v), decimal.Decimal(f.get('value'))):
            return False
    f = r.find(XS + 'minLength')
    if f is not None and len(v) < int(f.get('value')):
        return False
    return True


@functools.lru_cache(maxsize=None)
def primitive(tname):
    """'decimal' | 'integer' | 'string' | 'union' — the value family of a simple type"""
    if tname in ('xs:decimal',):
        return 'decimal'
    if tname in ('xs:integer', 'xs:nonNegativeInteger', 'xs:positiveInteger'):
        return 'integer'
    if tname in BUILTIN:
        return 'string'
    st = _stnode(tname)
    if st.find(XS + 'union') is not None:
        return 'union'
    return primitive(st.find(XS + 'restriction').get('base'))


@functools.lru_cache(maxsize=None)
def union_members(tname):
    st = _stnode(tname)
    u = st.find(XS + 'union')
    if u is None:
        return None
    return tuple((u.get('memberTypes') or '').split()), tuple(u.findall(XS + 'simpleType'))


def numeric_kinds(tname, node=None):
    """set of {'decimal','integer'} families a (possibly union) simple type admits"""
    if node is None and tname in BUILTIN:
        p = primitive(tname)
        return {p} if p in ('decimal', 'integer') else set()
    st = node if node is not None else _stnode(tname)
    u = st.find(XS + 'union')
    if u is not None:
        out = set()
        for m in (u.get('memberTypes') or '').split():
            out |= numeric_kinds(m)
        for inl in u.findall(XS + 'simpleType'):
            out |= numeric_kinds(None, inl)
        return out
    return numeric_kinds(st.find(XS + 'restriction').get('base'))


SIMPLE_TYPE_NAMES = sorted(stypes) + sorted(BUILTIN) + sorted(xml_stypes)


def enumeration(tname, node=None):
    if node is None and tname in BUILTIN:
        return []
    st = node if node is not None else _stnode(tname)
    u = st.find(XS + 'union')
    if u is not None:
        out = []
        for m in (u.get('memberTypes') or '').split():
            out += enumeration(m)
        for inl in u.findall(XS + 'simpleType'):
            out += enumeration(None, inl)
        return out
    r = st.find(XS + 'restriction')
    return [e.get('value') for e in r.findall(XS + 'enumeration')]


_NEAR = {}


def near_miss_literals(tname, limit=4):
    """literals of other enumerated types that overlap with tname's enumeration but are not in it"""
    if tname is None:
        return []
    if not _NEAR:
        enums = {}
        for t, node in stypes.items():
            r = node.find(XS + 'restriction')
            if r is not None:
                vals = [e.get('value') for e in r.findall(XS + 'enumeration')]
                if vals:
                    enums[t] = vals
        for t, vals in enums.items():
            mine = set(vals)
            out = []
            for u, uv in sorted(enums.items(), key=lambda kv: (-len(mine & set(kv[1])), kv[0])):
                if u == t or not (mine & set(uv)):
                    continue
                out += [x for x in uv if x not in mine and x not in out]
            _NEAR[t] = out
    return _NEAR.get(tname, [])[:limit]


PATTERN_POSITIVES = {
    'color': ['#000000', '#FF00AA80', '#12AB3F', '#0A1B2C3D'],
    'comma-separated-text': ['Arial', 'Times, serif', 'a,b', 'x y, z'],
    'smufl-accidental-glyph-name': ['accidentalSharp', 'medRenFlaX', 'kievanAccidentalSharp', 'acc.x'],
    'smufl-coda-glyph-name': ['coda', 'codaSquare'],
    'smufl-lyrics-glyph-name': ['lyricsElision', 'lyricsX'],
    'smufl-pictogram-glyph-name': ['pictGlsp', 'pictX'],
    'smufl-segno-glyph-name': ['segno', 'segnoSerpent1'],
    'smufl-wavy-line-glyph-name': ['wiggleTrill', 'guitarVibratoStroke', 'guitarWideVibratoStroke'],
    'time-only': ['1', '1, 2', '1,2', '12, 3'],
    'yyyy-mm-dd': ['2021-06-01', '1999-12-31'],
    'ending-number': ['1', '1, 2', '', ' ', '  ', '3,4'],
    'xs:NMTOKEN': ['tok1', 'a:b', '-x', '1a'],
    'xs:Name': ['a', '_x', 'a:b', 'a-b.c'],
    'xs:NCName': ['a', '_x', 'a-b.c'],
    'xs:ID': ['id1', '_a.b', 'P1'],
    'xs:IDREF': ['id1', 'P1'],
    'xs:language': ['en', 'de-CH', 'x-klingon', 'i-navajo', 'EN'],
    'smufl-glyph-name': ['noteheadBlack', 'a'],
}
PATTERN_NEGATIVES = {
    'color': ['#12ab3f', '#12345', '000000', '#1234567', '#GGGGGG', 'red'],
    'comma-separated-text': ['a,,b', ',a', 'a,', ''],
    'smufl-accidental-glyph-name': ['acc', 'sharp', 'medRenFla', 'Accidental'],
    'smufl-coda-glyph-name': ['segno', 'Coda', 'xcoda'],
    'smufl-lyrics-glyph-name': ['lyrics', 'Lyrics1', 'xlyricsA'],
    'smufl-pictogram-glyph-name': ['pict', 'Pict1'],
    'smufl-segno-glyph-name': ['coda', 'Segno'],
    'smufl-wavy-line-glyph-name': ['wiggle', 'guitarVibrato', 'trill'],
    'time-only': ['0', '1,,2', '1, 0', 'a', '', '01'],
    'yyyy-mm-dd': ['2021-01-01Z', '2021-13-01', '21-01-01', '2021-1-1', '2021-01-01+01:00', '2021-02-30'],
    'ending-number': ['0', '1,,2', 'a', '1;2'],
    'xs:NMTOKEN': ['a b', '', 'a,b'],
    'xs:Name': ['1a', '-a', 'a b', ''],
    'xs:NCName': ['a:b', '1a', ''],
    'xs:ID': ['a:b', '1a', '', 'a b'],
    'xs:IDREF': ['a:b', '1a', ''],
    'xs:language': ['e', 'english-', '12', 'en_US', ''],
    'smufl-glyph-name': [],
}


def valid_forms(tname, node=None, _depth=0):
    """a list of lexical forms expected valid for the type (each re-certified by valid() by the caller)"""
    if node is None and tname in BUILTIN:
        return {
            'xs:string': ['text', 'Hello World', 'a b', 'é', 'x<y&z', ' padded ', ''],
            'xs:token': ['tok', 'a b', ''],
            'xs:decimal': ['1', '2.5', '-3', '0.25', '10', '+4', '007', '4.50', '.5', '5.', '0', '-0.0',
                           '100000000000000000000000', '0.00001'],
            'xs:integer': ['0', '-2', '7', '+4', '007', '100000000000000000000000'],
            'xs:nonNegativeInteger': ['0', '3', '+4', '007'],
            'xs:positiveInteger': ['1', '4', '+4', '007'],
            'xs:anyURI': ['http://x/y.png', 'a.png', ''],
            'xs:date': ['2021-06-01', '2020-02-29', '2021-06-01Z', '2021-06-01+02:00'],
        }[tname]
    st = node if node is not None else _stnode(tname)
    name = tname if node is None else None
    u = st.find(XS + 'union')
    if u is not None:
        out = []
        for m in (u.get('memberTypes') or '').split():
            out += valid_forms(m, None, _depth + 1)
        for inl in u.findall(XS + 'simpleType'):
            out += valid_forms(None, inl, _depth + 1)
        return out
    r = st.find(XS + 'restriction')
    base = r.get('base')
    enums = [e.get('value') for e in r.findall(XS + 'enumeration')]
    if enums:
        return enums
    if r.findall(XS + 'pattern'):
        return list(PATTERN_POSITIVES.get(name, []))
    lo = hi = None
    loex = hiex = False
    for tag in ('minInclusive', 'minExclusive'):
        f = r.find(XS + tag)
        if f is not None:
            lo = decimal.Decimal(f.get('value')); loex = tag == 'minExclusive'
    for tag in ('maxInclusive', 'maxExclusive'):
        f = r.find(XS + tag)
        if f is not None:
            hi = decimal.Decimal(f.get('value')); hiex = tag == 'maxExclusive'
    if lo is not None or hi is not None:
        fam = primitive(base)
        out = []
        if lo is not None:
            out += [str(lo + 1)] if loex else [str(lo), str(lo + 1)]
            if fam == 'decimal':
                out += [str(lo + decimal.Decimal('0.5')), str(lo + decimal.Decimal('0.001'))]
        if hi is not None:
            out += [str(hi - 1)] if hiex else [str(hi), str(hi - 1)]
            if fam == 'decimal':
                out += [str(hi - decimal.Decimal('0.5'))]
        if hi is None:
            out += [str(lo + 1000)]
        if lo is None:
            out += [str(hi - 1000)]
        return out
    if r.find(XS + 'minLength') is not None:
        return ['x', 'a b', ' x ']
    return valid_forms(base, None, _depth + 1)


def invalid_forms(tname, node=None):
    """near-miss lexical forms expected invalid (each re-certified by valid() by the caller)"""
    if node is None and tname in BUILTIN:
        return {
            'xs:string': [], 'xs:token': [], 'xs:anyURI': [],
            'xs:decimal': ['1e5', 'abc', '', '1,5', '1.2.3', 'NaN', 'INF', '--1', '1e-05'],
            'xs:integer': ['1.5', 'abc', '', '1.0', '1e3'],
            'xs:nonNegativeInteger': ['-1', '1.5', '', 'abc'],
            'xs:positiveInteger': ['0', '-1', '1.5', ''],
            'xs:date': ['2021-13-01', '21-01-01', 'today', '2021-02-30', ''],
        }[tname]
    st = node if node is not None else _stnode(tname)
    name = tname if node is None else None
    u = st.find(XS + 'union')
    if u is not None:
        return ['@@nope@@', '-99999.5x']
    r = st.find(XS + 'restriction')
    base = r.get('base')
    enums = [e.get('value') for e in r.findall(XS + 'enumeration')]
    if enums:
        out = ['@@nope@@', enums[0].upper() if enums[0].upper() != enums[0] else enums[0].lower(), enums[0] + 'x', '']
        return out + near_miss_literals(name)
    if r.findall(XS + 'pattern'):
        return list(PATTERN_NEGATIVES.get(name, []))
    out = []
    for tag in ('minInclusive', 'minExclusive'):
        f = r.find(XS + tag)
        if f is not None:
            lo = decimal.Decimal(f.get('value'))
            out += [str(lo - 1)] + ([str(lo)] if tag == 'minExclusive' else [])
            if primitive(base) == 'decimal':
                out += [str(lo - decimal.Decimal('0.001'))]
    for tag in ('maxInclusive', 'maxExclusive'):
        f = r.find(XS + tag)
        if f is not None:
            hi = decimal.Decimal(f.get('value'))
            out += [str(hi + 1)] + ([str(hi)] if tag == 'maxExclusive' else [])
            if primitive(base) == 'decimal':
                out += [str(hi + decimal.Decimal('0.001'))]
    if r.find(XS + 'minLength') is not None:
        out += ['', ' ', '   ']
    out += invalid_forms(base)
    return out


# ------------------------------------------------------------------ document validator
def qname_to_prefixed(k):
    return k.replace('{%s}' % XMLNS, 'xml:').replace('{%s}' % XLNS, 'xlink:')


def prefixed_to_qname(k):
    if k.startswith('xml:'):
        return '{%s}%s' % (XMLNS, k[4:])
    if k.startswith('xlink:'):
        return '{%s}%s' % (XLNS, k[6:])
    return k


def validate_node(name, attrib, text, child_names, checks=('children', 'text', 'attrs')):
    """complaints about a single element given its name, attribute dict (prefixed names), text, child names"""
    errs = []
    if name not in ELS:
        return [('unknown-element', name)]
    t = eltype(name)
    text = text or ''
    if t in ALL:
        if 'children' in checks:
            d = DFAS.get(t)
            if d is not None:
                if not d.accepts(child_names):
                    errs.append(('children', t, tuple(child_names)))
            elif child_names:
                errs.append(('children-not-allowed', t, tuple(child_names)))
        if 'text' in checks:
            sb = simple_base(t)
            if sb:
                if not valid(sb, text):
                    errs.append(('text', sb, text))
            elif text.strip():
                errs.append(('text-not-allowed', t, text))
        if 'attrs' in checks:
            table = {a[0]: a for a in attr_table(t)}
            seen = set()
            for k, v in attrib.items():
                kk = qname_to_prefixed(k)
                if kk not in table:
                    errs.append(('attr-undeclared', t, kk)); continue
                seen.add(kk)
                if not attr_valid(kk, table[kk][1], v):
                    errs.append(('attr-value', t, kk, v))
            for a in table.values():
                if a[2] and a[0] not in seen:
                    errs.append(('attr-required', t, a[0]))
    else:
        if child_names and 'children' in checks:
            errs.append(('children-not-allowed', t, tuple(child_names)))
        if attrib and 'attrs' in checks:
            errs.append(('attrs-not-allowed', t, tuple(attrib)))
        if 'text' in checks and not valid(t, text):
            errs.append(('text', t, text))
    return errs


def validate_doc(el, errs=None, path='', checks=('children', 'text', 'attrs')):
    """validate an xml.etree element tree; returns list of (path, complaint...)"""
    if errs is None:
        errs = []
    path = path + '/' + el.tag
    for e in validate_node(el.tag, el.attrib, el.text, [c.tag for c in el], checks):
        errs.append((path,) + e)
    if el.tag in ELS:
        for c in el:
            validate_doc(c, errs, path, checks)
    return errs


# ------------------------------------------------------------------ shortest completions / heights
def _heights():
    ELT = {n: eltype(n) for n in ELS}
    cost = {n: (0 if ELT[n] not in DFAS else None) for n in ELT}
    best = {}
    changed = True
    import heapq
    while changed:
        changed = False
        for t, d in DFAS.items():
            dist = {d.start: (0, 0)}
            pq = [((0, 0), 0, d.start, ())]
            cnt = 0
            found = None
            while pq:
                (h, l), _, S_, w = heapq.heappop(pq)
                if dist.get(S_, (99, 99)) < (h, l):
                    continue
                if S_ in d.acc:
                    found = (h, l, w); break
                for sym in d.alphabet:
                    T = d.trans.get((S_, sym))
                    if T is None or T not in d.live or cost.get(sym) is None:
                        continue
                    nh = max(h, cost[sym] + 1); nl = l + 1
                    if T not in dist or dist[T] > (nh, nl):
                        dist[T] = (nh, nl); cnt += 1
                        heapq.heappush(pq, ((nh, nl), cnt, T, w + (sym,)))
            if found and (t not in best or best[t][:2] > found[:2]):
                best[t] = found; changed = True
        for n, t in ELT.items():
            if t in best:
                c = best[t][0]
                if cost[n] is None or cost[n] > c:
                    cost[n] = c; changed = True
    return ELT, cost, best


ELT, HEIGHT, BEST = _heights()


def shortest_word(tname):
    """a cheapest accepted word (by subtree height then length) of a type with element content"""
    return BEST[tname][2]


# ------------------------------------------------------------------ random valid documents (xml.etree)
def gen_value(t, rnd, node=None):
    forms = [f for f in valid_forms(t, node)]
    if not forms:
        raise RuntimeError('no forms for %r' % (t,))
    for _ in range(20):
        f = rnd.choice(forms)
        if valid(t, f, node) if (node is not None or t is not None) else True:
            return f
    return forms[0]


def gen_attr_value(an, at, rnd):
    if at is not None:
        return gen_value(at, rnd)
    if an == 'xml:lang':
        return rnd.choice(['en', 'de', 'fr-CA'])
    if an == 'xml:space':
        return rnd.choice(['default', 'preserve'])
    t, enum = XLINK_ATTRS[an]
    if enum is not None:
        return rnd.choice(enum)
    return gen_value(t, rnd)


def gen_el(name, rnd, depth, opts=None):
    """random schema-valid element tree (xml.etree) from the reference grammar with a depth budget"""
    opts = opts or {}
    t = ELT[name]
    el = ET.Element(name)
    if t in ALL:
        for an, at, req in attr_table(t):
            if ':' in an and not opts.get('ns', True) and not req:
                continue
            if an in opts.get('skip_attrs', ()) and not req:
                continue
            if req or rnd.random() < opts.get('pattr', 0.25):
                el.set(prefixed_to_qname(an), gen_attr_value(an, at, rnd))
        sb = simple_base(t)
        if sb:
            el.text = gen_value(sb, rnd)
        if t in DFAS:
            d = DFAS[t]
            maxkids = opts.get('maxkids', 6)
            S_ = d.start; w = []
            while True:
                can_stop = S_ in d.acc
                nxt = [(s, d.trans[(S_, s)]) for s in d.alphabet
                       if (S_, s) in d.trans and d.trans[(S_, s)] in d.live
                       and HEIGHT[s] is not None and HEIGHT[s] + 1 <= depth
                       and s not in opts.get('skip_elements', ())]
                if can_stop and (not nxt or len(w) >= maxkids or rnd.random() < opts.get('pstop', 0.3)):
                    break
                if not nxt or len(w) > maxkids * 3:
                    tail = d.shortest_from(S_)
                    if tail is None or any(HEIGHT[s] is None or HEIGHT[s] + 1 > depth for s in tail):
                        w = list(BEST[t][2])
                    else:
                        w += list(tail)
                    break
                s, T = rnd.choice(nxt); w.append(s); S_ = T
            if not d.accepts(w):
                w = list(BEST[t][2])
            for s in w:
                el.append(gen_el(s, rnd, depth - 1, opts))
    else:
        el.text = gen_value(t, rnd)
    return el


def selftest():
    """cheap sanity test of the reference model; returns list of problems"""
    probs = []
    if len(ALL) != 228:
        probs.append('complex types %d != 228' % len(ALL))
    if len(DFAS) != 94:
        probs.append('content models %d != 94' % len(DFAS))
    tests = [('color', '#12AB3F', True), ('color', '#12ab3f', False), ('font-size', 'large', True),
             ('font-size', '12.5', True), ('font-size', 'big', False), ('positive-divisions', '0', False),
             ('positive-divisions', ' 1.50 ', True), ('ending-number', '1, 2', True), ('ending-number', '', True),
             ('ending-number', '0', False), ('yyyy-mm-dd', '2021-01-01', True), ('yyyy-mm-dd', '2021-01-01Z', False),
             ('octave', '9', True), ('octave', '10', False), ('tenths', '1e5', False),
             ('smufl-coda-glyph-name', 'codaX', True), ('smufl-coda-glyph-name', 'segno', False),
             ('time-only', '1,2', True), ('time-only', '1, 0', False), ('xs:ID', 'a:b', False), ('xs:ID', '_a.b', True),
             ('midi-16', '16', True), ('midi-16', '17', False), ('rotation-degrees', '-180', True),
             ('rotation-degrees', '180.5', False), ('number-or-normal', 'normal', True),
             ('number-or-normal', '1.5', True), ('number-or-normal', 'x', False),
             ('positive-integer-or-empty', '', True), ('positive-integer-or-empty', '0', False),
             ('yes-no-number', 'yes', True), ('yes-no-number', '3.2', True), ('comma-separated-text', 'a, b', True),
             ('comma-separated-text', 'a,,b', False), ('step', 'A', True), ('step', ' A ', False), ('step', 'H', False),
             ('xs:language', 'en', True), ('xs:language', 'e', False), ('xs:NMTOKEN', 'a b', False)]
    for t, s, e in tests:
        if valid(t, s) != e:
            probs.append('simple type %s %r expected %s' % (t, s, e))
    note = DFAS['note']
    for w, e in ((['pitch', 'duration'], True), (['grace', 'pitch', 'tie', 'tie', 'voice'], True),
                 (['duration', 'pitch'], False), (['pitch'], False), (['rest', 'duration', 'tie', 'tie', 'tie'], False)):
        if note.accepts(w) != e:
            probs.append('note %r expected %s' % (w, e))
    bad = [('<pitch><octave>4</octave><step>C</step></pitch>', 'children'),
           ('<pitch><step>H</step><octave>4</octave></pitch>', 'text'),
           ('<note><pitch><step>C</step><octave>4</octave></pitch></note>', 'children'),
           ('<clef><sign>G</sign><line>x</line></clef>', 'text'),
           ('<words foo="1">a</words>', 'attr-undeclared'),
           ('<measure/>', 'attr-required'),
           ('<accent placement="sideways"/>', 'attr-value'),
           ('<chord>x</chord>', 'text-not-allowed')]
    for frag, kind in bad:
        errs = validate_doc(ET.fromstring(frag))
        if not any(e[1].startswith(kind) for e in errs):
            probs.append('invalid fragment accepted: %s (%s) -> %r' % (frag, kind, errs))
    good = ['<pitch><step>C</step><alter>-1</alter><octave>4</octave></pitch>',
            '<note><rest/><duration>4</duration></note>', '<key/>', '<ornaments/>',
            '<lyric><extend/></lyric>', '<words xml:lang="en" xml:space="preserve">a</words>'.replace(
                'xml:lang', '{%s}lang' % XMLNS).replace('xml:space', '{%s}space' % XMLNS) if False else '<words>a</words>']
    for frag in good:
        errs = validate_doc(ET.fromstring(frag))
        if errs:
            probs.append('valid fragment rejected: %s -> %r' % (frag, errs))
    return probs


if __name__ == '__main__':
    print(len(ALL), len(DFAS), sum(d.nstates for d in DFAS.values()), sum(len(d.edges()) for d in DFAS.values()))
    print(selftest())
