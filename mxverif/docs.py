"""Documents: library-independent XML text, API construction from a reference tree, infoset comparison,
localisation and shrinking of failing documents (G-docs, G-mutate)."""
import copy
import decimal
import os
import re
import tempfile
import xml.etree.ElementTree as ET

from . import ref

ET.register_namespace('xlink', ref.XLNS)
DECL = '<?xml version="1.0" encoding="UTF-8" standalone="no"?>\n'


# ------------------------------------------------------------------------------------ text
def to_text(el, decl=True):
    """serialise an xml.etree tree without the library (xml: and xlink: prefixes handled by ElementTree)"""
    return (DECL if decl else '') + ET.tostring(el, encoding='unicode') + '\n'


class TempFile:
    def __init__(self, prefix='mxverif-doc-'):
        f = tempfile.NamedTemporaryFile(prefix=prefix, suffix='.xml', delete=False)
        f.close()
        self.name = f.name

    def write(self, text):
        with open(self.name, 'w', encoding='utf-8') as f:
            f.write(text)

    def read_bytes(self):
        with open(self.name, 'rb') as f:
            return f.read()

    def close(self):
        try:
            os.unlink(self.name)
        except OSError:
            pass


# ------------------------------------------------------------------------------------ python values
def py_value(tname, lexical):
    """candidate Python values for a lexical form of a simple type, most natural first"""
    v = ref.collapse(lexical)
    kinds = ref.numeric_kinds(tname)
    out = []
    if kinds:
        if 'integer' in kinds and ref.INT.fullmatch(v):
            out.append(int(v))
        if 'decimal' in kinds and ref.DEC.fullmatch(v):
            if ref.INT.fullmatch(v):
                out.append(int(v))
            else:
                try:
                    out.append(float(v))
                except ValueError:
                    pass
    out.append(lexical)
    if ref.INT.fullmatch(v) and int(v) not in out:
        out.append(int(v))
    if ref.DEC.fullmatch(v):
        try:
            if float(v) not in out:
                out.append(float(v))
        except ValueError:
            pass
    return out


class BuildRefused(Exception):
    def __init__(self, where, exc):
        super().__init__('%s: %s' % (where, type(exc).__name__))
        self.where = where
        self.exc = exc


def build_api(el, lib, check=True, order=None, kw_attrs=False):
    """build the element tree through the public API in document order; raises BuildRefused.
    kw_attrs=True passes the attributes as constructor keywords instead of dot assignments"""
    cls = lib.cls_of_element(el.tag)
    if cls is None:
        raise BuildRefused(el.tag, KeyError(el.tag))
    t = ref.eltype(el.tag)
    kw = {}
    text = el.text if el.text is not None else ''
    if t in ref.ALL:
        sb = ref.simple_base(t)
        table = {a[0]: a for a in ref.attr_table(t)}
    else:
        sb = t
        table = {}
    obj = None
    last = None
    vals = py_value(sb, text) if sb else [None]
    kwargs = {}
    if kw_attrs:
        for k, v in el.attrib.items():
            an = ref.qname_to_prefixed(k)
            at = table.get(an, (None, None, None))[1]
            for pv in (py_value(at, v) if at else [v]):
                try:
                    cls(**{an.split(':')[-1].replace('-', '_'): pv}) if not sb else None
                    kwargs[an.split(':')[-1].replace('-', '_')] = pv
                    break
                except (TypeError, ValueError):
                    continue
                except Exception:  # noqa: BLE001
                    break
    for pv in vals:
        try:
            obj = cls(xsd_check=check, **kwargs) if pv is None else cls(pv, xsd_check=check, **kwargs)
            break
        except (TypeError, ValueError) as e:
            last = e
        except Exception as e:  # noqa: BLE001
            raise BuildRefused(el.tag + '#text', e)
    if obj is None:
        raise BuildRefused(el.tag + '#text', last)
    for k, v in el.attrib.items():
        an = ref.qname_to_prefixed(k)
        if an.split(':')[-1].replace('-', '_') in kwargs:
            continue
        at = table.get(an, (None, None, None))[1]
        cands = py_value(at, v) if at else [v]
        ok = False
        last = None
        for pv in cands:
            try:
                setattr(obj, an.split(':')[-1].replace('-', '_'), pv)
                ok = True
                break
            except (TypeError, ValueError) as e:
                last = e
            except Exception as e:  # noqa: BLE001
                raise BuildRefused('%s/@%s' % (el.tag, an), e)
        if not ok:
            raise BuildRefused('%s/@%s' % (el.tag, an), last)
    kids = list(el)
    for c in kids:
        child = build_api(c, lib, check, kw_attrs=kw_attrs)
        try:
            obj.add_child(child)
        except Exception as e:  # noqa: BLE001
            raise BuildRefused('%s>%s' % (el.tag, c.tag), e)
    return obj


# ------------------------------------------------------------------------------------ infoset
def _is_decimal_typed(tname):
    return tname is not None and 'decimal' in ref.numeric_kinds(tname)


def _is_integer_only(tname):
    return tname is not None and ref.numeric_kinds(tname) == {'integer'}


def text_equal(tname, a, b, strip=False):
    """text equality up to the decimal spelling of decimal-typed content; integer-typed content must stay integral.
    strip=True (C09) additionally treats surrounding / collapsible whitespace as insignificant."""
    a = a or ''
    b = b or ''
    if a == b:
        return True
    if tname is None:
        return strip and a.strip() == b.strip()
    ca, cb = ref.collapse(a), ref.collapse(b)
    if _is_decimal_typed(tname) and ref.DEC.fullmatch(ca) and ref.DEC.fullmatch(cb):
        return decimal.Decimal(ca) == decimal.Decimal(cb)
    if _is_integer_only(tname) and ref.INT.fullmatch(ca) and ref.INT.fullmatch(cb):
        return int(ca) == int(cb)
    if strip:
        if ref.wsof(tname) == 'collapse' or ref.primitive(tname) == 'union':
            return ca == cb
        return a.strip() == b.strip()
    return False


def infoset_diff(a, b, path='', lenient_ws=False, out=None, limit=6):
    """differences between two xml.etree trees: elements, order, attributes, text (numeric spelling tolerated)"""
    if out is None:
        out = []
    if len(out) >= limit:
        return out
    path = path + '/' + a.tag
    if a.tag != b.tag:
        out.append((path, 'tag', a.tag, b.tag))
        return out
    t = ref.eltype(a.tag) if a.tag in ref.ELS else None
    sb = None
    table = {}
    if t is not None:
        if t in ref.ALL:
            sb = ref.simple_base(t)
            table = {x[0]: x for x in ref.attr_table(t)}
        else:
            sb = t
    ta, tb = (a.text or ''), (b.text or '')
    if len(a) or len(b):
        if ta.strip() != tb.strip():
            out.append((path, 'text', ta, tb))
    elif not text_equal(sb, ta, tb, strip=lenient_ws):
        out.append((path, 'text', ta, tb))
    ka = {ref.qname_to_prefixed(k): v for k, v in a.attrib.items()}
    kb = {ref.qname_to_prefixed(k): v for k, v in b.attrib.items()}
    for k in sorted(set(ka) | set(kb)):
        if k not in ka or k not in kb:
            out.append((path, 'attribute-set', k, 'missing in %s' % ('first' if k not in ka else 'second')))
        else:
            at = table.get(k, (None, None, None))[1]
            if not text_equal(at, ka[k], kb[k], strip=lenient_ws):
                out.append((path, 'attribute-value', k, ka[k], kb[k]))
    ca, cb = [c.tag for c in a], [c.tag for c in b]
    if ca != cb:
        out.append((path, 'children', ca, cb))
        return out
    for x, y in zip(a, b):
        ya = (x.tail or '').strip()
        yb = (y.tail or '').strip()
        if ya != yb:
            out.append((path, 'tail', ya, yb))
        infoset_diff(x, y, path, lenient_ws, out, limit)
    return out


def items(el, path=''):
    """multiset items of an input for the containment (no silent loss) check"""
    path = path + '/' + el.tag
    out = [('element', path)]
    for k, v in el.attrib.items():
        out.append(('attribute', path, ref.qname_to_prefixed(k).split(':')[-1], ref.collapse(v)))
    if (el.text or '').strip():
        out.append(('text', path, ref.collapse(el.text)))
    for c in el:
        out += items(c, path)
        if (c.tail or '').strip():
            out.append(('tail', path, ref.collapse(c.tail)))
    return out


def _num_norm(s):
    c = ref.collapse(s)
    if ref.DEC.fullmatch(c):
        try:
            return str(decimal.Decimal(c).normalize() + 0)
        except decimal.InvalidOperation:
            return c
    if re.fullmatch(r'[+-]?([0-9]+(\.[0-9]*)?|\.[0-9]+)[eE][+-]?[0-9]+', c):
        try:
            return str(decimal.Decimal(c).normalize() + 0)
        except decimal.InvalidOperation:
            return c
    return c


def diff_cause(a, b, lenient=False):
    """recognised mechanisms behind a text / attribute-value difference (a = input, b = output)"""
    a = a or ''
    b = b or ''
    if not lenient and a != b and a.strip() == b:
        return 'surrounding-whitespace-stripped'
    try:
        if float(a) == float(b) and ('e' in b.lower() or 'n' in b.lower()):
            return 'float-repr'
        if ref.DEC.fullmatch(ref.collapse(a)) and 'e' in b.lower() and abs(float(a) - float(b)) <= 1e-9 * abs(float(a)):
            return 'float-repr'
    except ValueError:
        pass
    return None


def lost_items(inp, outp):
    """items of the input that do not appear in the output (numeric spelling tolerated)"""
    import collections
    def norm(it):
        return tuple(_num_norm(x) if i >= 2 else x for i, x in enumerate(it))
    have = collections.Counter(norm(i) for i in items(outp))
    lost = []
    for it in items(inp):
        n = norm(it)
        if have[n] > 0:
            have[n] -= 1
        else:
            lost.append(it)
    return lost


# ------------------------------------------------------------------------------------ localisation and shrinking
def localize(el, fails):
    """deepest subtree of el that still fails on its own (fails(subtree) -> bool)"""
    cur = el
    while True:
        nxt = None
        for c in cur:
            if c.tag in ref.ELS and fails(c):
                nxt = c
                break
        if nxt is None:
            return cur
        cur = nxt


def shrink_doc(el, fails, max_steps=200):
    """remove attributes / children / grandchildren while the document stays reference-valid and still fails"""
    el = copy.deepcopy(el)
    steps = 0
    changed = True
    while changed and steps < max_steps:
        changed = False
        for k in list(el.attrib):
            trial = copy.deepcopy(el)
            del trial.attrib[k]
            steps += 1
            if not ref.validate_doc(trial) and fails(trial):
                el = trial; changed = True
                break
        if changed:
            continue
        for i in range(len(el)):
            trial = copy.deepcopy(el)
            trial.remove(trial[i])
            steps += 1
            if not ref.validate_doc(trial) and fails(trial):
                el = trial; changed = True
                break
        if changed:
            continue
        # simplify children: replace a child by a minimal valid instance of the same element
        for i in range(len(el)):
            c = el[i]
            if len(c) == 0 and not c.attrib:
                continue
            trial = copy.deepcopy(el)
            import random
            mini = ref.gen_el(c.tag, random.Random(0), max(1, ref.HEIGHT[c.tag] or 1), {'pattr': 0.0, 'maxkids': 0, 'pstop': 1.0})
            trial.remove(trial[i]); trial.insert(i, mini)
            steps += 1
            if ET.tostring(mini) != ET.tostring(c) and not ref.validate_doc(trial) and fails(trial):
                el = trial; changed = True
                break
    return el


# ------------------------------------------------------------------------------------ mutations (G-mutate)
def mutate(el, rnd):
    """one structure-aware mutation; returns (mutated copy, description)"""
    el = copy.deepcopy(el)
    nodes = list(el.iter())
    kind = rnd.choice(['del-el', 'dup-el', 'swap', 'rename-el', 'del-attr', 'rename-attr', 'bad-attr', 'add-attr',
                       'inject-text', 'inject-tail', 'bad-text', 'foreign-el', 'nest-in-leaf', 'nest-in-leaf', 'move-el',
                       'shuffle-children', 'shuffle-children'])
    parents = [n for n in nodes if len(n)]
    if kind in ('del-el', 'dup-el', 'swap', 'rename-el', 'inject-tail', 'foreign-el') and parents:
        p = rnd.choice(parents)
        i = rnd.randrange(len(p))
        if kind == 'del-el':
            p.remove(p[i])
        elif kind == 'dup-el':
            p.insert(i, copy.deepcopy(p[i]))
        elif kind == 'swap' and len(p) > 1:
            j = rnd.randrange(len(p))
            a, b = p[i], p[j]
            p[i], p[j] = copy.deepcopy(b), copy.deepcopy(a)
        elif kind == 'rename-el':
            p[i].tag = rnd.choice(ref.ELEMENT_NAMES)
        elif kind == 'inject-tail':
            p[i].tail = 'stray tail text'
        elif kind == 'foreign-el':
            p.insert(i, ET.Element(rnd.choice(['foo', 'x-unknown', 'Pitch'])))
    elif kind in ('del-attr', 'rename-attr', 'bad-attr'):
        withattr = [n for n in nodes if n.attrib]
        if withattr:
            n = rnd.choice(withattr)
            k = rnd.choice(sorted(n.attrib))
            if kind == 'del-attr':
                del n.attrib[k]
            elif kind == 'rename-attr':
                n.attrib[k + 'x'] = n.attrib.pop(k)
            else:
                n.attrib[k] = rnd.choice(['@@bad@@', '', '-99999', '1e5'])
    elif kind == 'add-attr':
        n = rnd.choice(nodes)
        n.set(rnd.choice(['foo', 'color', 'id', 'number', 'type', 'placement']), rnd.choice(['x', '1', '#000000', 'above']))
    elif kind == 'inject-text':
        n = rnd.choice(nodes)
        n.text = (n.text or '') + ' injected text'
    elif kind == 'bad-text':
        leaves = [n for n in nodes if not len(n)]
        n = rnd.choice(leaves)
        n.text = rnd.choice(['@@bad@@', '', '-99999', '1e5', ' 7 '])
    elif kind == 'nest-in-leaf':
        # a known element inside an element that has no children here (mostly: one whose type allows none)
        leaves = [n for n in nodes if not len(n)]
        n = rnd.choice(leaves)
        other = rnd.choice(nodes)
        if rnd.random() < 0.5 and other is not el and not len(other):
            child = copy.deepcopy(other)
        else:
            child = ET.Element(rnd.choice(['voice', 'type', 'words', 'dot', 'step', 'duration', n.tag]))
            child.text = rnd.choice(['1', 'eighth', 'inner', None])
        child.tail = None
        n.append(child)
    elif kind == 'shuffle-children' and parents:
        # all children of one element in another order (out-of-order input makes the library search for another arrangement)
        big = [p for p in parents if len(p) >= 3] or parents
        p = rnd.choice(big)
        kids = list(p)
        rnd.shuffle(kids)
        for k in list(p):
            p.remove(k)
        p.extend(kids)
    elif kind == 'move-el' and len(parents) > 1:
        p = rnd.choice(parents)
        q = rnd.choice(nodes)
        k = p[rnd.randrange(len(p))]
        if q is not k and q not in list(k.iter()):
            p.remove(k)
            q.append(k)
    return el, kind
