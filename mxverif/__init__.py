"""Runtime-monitoring machinery for alexgorji/musicxml (see /verif/DESIGN.md)."""
