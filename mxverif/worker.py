"""Worker process: runs a slice of shards of one check, one JSON line per finished shard."""
import importlib
import json
import os
import sys
import traceback


def main():
    if sys.argv[1] == '--replay':
        rp = json.load(open(sys.argv[2]))
        mod = importlib.import_module('mxverif.checks.' + rp['check'].lower())
        out = mod.replay_case(rp)
        print(json.dumps(out, indent=1, default=str))
        if out.get('violated'):
            print('VIOLATION property=%s replay=%s' % (rp['property'], sys.argv[2]))
            sys.exit(1)
        sys.exit(0)
    job = json.load(open(sys.argv[1]))
    mod = importlib.import_module('mxverif.checks.' + job['check'].lower())
    with open(sys.argv[2], 'w') as out:
        for i, shard in job['shards']:
            try:
                r = mod.run_shard(shard, job['tier'], job['seed'])
            except Exception:  # noqa: BLE001  a crashing shard is inconclusive, never a verdict
                sys.stderr.write('shard %r crashed:\n%s\n' % (shard, traceback.format_exc()))
                continue
            out.write(json.dumps([i, r], default=str) + '\n')
            out.flush()


if __name__ == '__main__':
    main()
