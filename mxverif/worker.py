"""Worker process: runs a slice of shards of one check, one JSON line per finished shard."""
import importlib
import json
import os
import sys
import traceback


def main():
    if sys.argv[1] == '--replay':
        rp = json.load(open(sys.argv[2]))
        mod = importlib.import_module('mxverif.checks.' + rp['check'].lower())
        out = mod.replay_case(rp)
        print(json.dumps(out, indent=1, default=str))
        if out.get('violated'):
            print('VIOLATION property=%s replay=%s' % (rp['property'], sys.argv[2]))
            sys.exit(1)
        sys.exit(0)
    job = json.load(open(sys.argv[1]))
    mod = importlib.import_module('mxverif.checks.' + job['check'].lower())
    with open(sys.argv[2], 'w') as out:
        for i, shard in job['shards']:
            try:
                r = mod.run_shard(shard, job['tier'], job['seed'])
            except Exception as exc:  # noqa: BLE001
                tb = traceback.format_exc()
                sys.stderr.write('shard %r crashed:\n%s\n' % (shard, tb))
                # where was the exception raised? An exception raised by the LIBRARY at a place where the harness (which
                # runs clean on the unchanged tree) expected none is an observation about the library; a bug of the
                # harness itself only makes the shard inconclusive
                t = exc.__traceback__
                inner = None
                while t is not None:
                    inner = t.tb_frame.f_code.co_filename
                    t = t.tb_next
                in_library = bool(inner) and (os.sep + 'musicxml' + os.sep) in inner and (os.sep + 'mxverif' + os.sep) not in inner
                if in_library:
                    r = {'evaluations': 1, 'distinct_nontrivial': 0, 'samples': [], 'counters': {'shards_crashed_in_library': 1},
                         'violations': [{'sig': {'kind': 'library-raised-where-the-monitor-expected-none',
                                                 'exc': type(exc).__name__, 'where': os.path.basename(inner)},
                                         'case': {'shard': shard}, 'detail': {'traceback': tb[-1500:]}}]}
                    out.write(json.dumps([i, r], default=str) + '\n')
                    out.flush()
                continue
            out.write(json.dumps([i, r], default=str) + '\n')
            out.flush()


if __name__ == '__main__':
    main()
