"""C18 — xsd_check=False switches off structural checking and nothing else.

Monitor: M-twin (checked vs unchecked element given the same children) + exception classifier.
"""
import collections
import random
import xml.etree.ElementTree as ET

from .. import ref

PROPERTY = 'C18'
LEVEL = 'exploration'
RULE = ('(a) every element class created with xsd_check=False: seeded child sequences (own alphabet in arbitrary order, '
        'foreign names, runs of up to 40) through add_child / remove / replace_child / to_string: nothing may raise, output '
        'order must equal insertion order. (b) every element-content type: all reference words <=2 (thorough <=3) plus '
        'seeded walks supplied in order to a checked and an unchecked twin: where the checked twin serialises, the bytes '
        'must be identical (a refusing checked twin is inconclusive: that is C02). (c) a checked element inside an '
        'unchecked parent must still refuse a foreign child and refuse its own to_string while incomplete; a checked, '
        'complete parent with an unchecked child holding arbitrary grandchildren must serialise (the unchecked node is '
        'exempt), and a checked, incomplete node BELOW an unchecked node below a checked root makes the root refuse until it is '
        'completed. (f) possible_children_names, reading an unset xml_ child and setting a child through the xml_ shortcut behave on an unchecked element as on a checked one. (e) an unchecked score-partwise holding a checked, possibly incomplete element of the class is written by write() (both flags) exactly as to_string() returns it. Replaced and removed children of unchecked elements must report no parent. (a) includes one run of 300 children per class with replacement and removal at positions >= 257. non-trivial = a sequence with at least one child; distinct by (class, sequence)')
ASSUMPTIONS = ['structural reasons = any exception from add_child / remove / replace_child / to_string on an unchecked element',
               'children are minimal unchecked instances unless stated']
TIMEOUT = {'quick': 600, 'thorough': 2400}
NSHARDS = 16
FOREIGN = ['pitch', 'words', 'offset', 'chord', 'measure', 'credit-words']


def plan(tier, seed):
    return [{'slice': i, 'cost': 1} for i in range(NSHARDS)]


def run_shard(shard, tier, seed):
    from .. import lib
    viol = []
    c = collections.Counter()
    evals = 0
    nontriv = 0
    samples = []
    rnd = random.Random('%s:C18:%d' % (seed, shard['slice']))
    classes = sorted(lib.CLASSES.items())
    mine = [x for i, x in enumerate(classes) if i % NSHARDS == shard['slice']]

    def v(kind, t, case, detail=None, extra=None):
        sig = {'kind': kind, 'type': t}
        if extra:
            sig.update(extra)
        viol.append({'sig': sig, 'case': case, 'detail': detail or {}})

    for cn, cls in mine:
        t = lib.xsd_type_name(cls)
        alpha = ref.DFAS[t].alphabet if t in ref.DFAS else []
        # ---------------- (a) unchecked element accepts anything, never raises, keeps insertion order
        for k in range(3 if tier == 'quick' else 25):
            # the last run of each class is long (300 children), and its replacement / removal hit late positions (>= 257)
            n = (300 if k == 2 else rnd.choice([1, 3, 8, 40])) if k else 5
            names = [rnd.choice(alpha) if alpha and rnd.random() < 0.6 else rnd.choice(FOREIGN + ref.ELEMENT_NAMES[:40])
                     for _ in range(n)]
            if alpha and rnd.random() < 0.3:
                names = list(reversed(ref.DFAS[t].random_word(rnd, 8))) or names
            evals += 1
            nontriv += 1
            case = {'cls': cn, 'children': names, 'part': 'a'}
            r = lib.call(lambda: lib.make(cls, check=False))
            if r[0] == 'exc':
                c['cannot_instantiate'] += 1
                continue
            e = r[1]
            kids = []
            bad = False
            for s in names:
                ch = lib.make(lib.child_cls(s))
                r = lib.call(e.add_child, ch)
                if r[0] == 'exc':
                    v('unchecked-add-raises', t, case, {'child': s, 'msg': str(r[1])[:100]}, {'exc': type(r[1]).__name__})
                    bad = True
                    break
                kids.append(ch)
            if bad:
                continue
            r = lib.call(e.to_string)
            if r[0] == 'exc':
                v('unchecked-to-string-raises', t, case, {'msg': str(r[1])[:100]}, {'exc': type(r[1]).__name__})
                continue
            out = [x.tag for x in ET.fromstring(r[1])]
            if out != names:
                v('unchecked-order-not-insertion-order', t, case, {'got': out[:12]})
            if [id(x) for x in e.get_children()] != [id(x) for x in kids]:
                v('unchecked-children-view-differs', t, case)
            # replace and remove
            if kids:
                i = rnd.randrange(len(kids)) if len(kids) < 260 else rnd.randrange(257, len(kids))
                new = lib.make(lib.child_cls(rnd.choice(FOREIGN)))
                r = lib.call(e.replace_child, kids[i], new)
                if r[0] == 'exc':
                    v('unchecked-replace-raises', t, case, {'msg': str(r[1])[:100]}, {'exc': type(r[1]).__name__})
                else:
                    if kids[i].get_parent() is not None or kids[i].up is not None:
                        v('unchecked-replaced-child-keeps-parent', t, case, {'child': kids[i].name})
                    kids[i] = new
                j = rnd.randrange(len(kids)) if len(kids) < 260 else rnd.randrange(257, len(kids))
                r = lib.call(e.remove, kids[j])
                if r[0] == 'exc':
                    v('unchecked-remove-raises', t, case, {'msg': str(r[1])[:100]}, {'exc': type(r[1]).__name__})
                else:
                    gone = kids.pop(j)
                    if gone.get_parent() is not None or gone.up is not None:
                        v('unchecked-removed-child-keeps-parent', t, case, {'child': gone.name})
                r = lib.call(e.to_string)
                if r[0] == 'exc':
                    v('unchecked-to-string-raises', t, case, {'msg': str(r[1])[:100]}, {'exc': type(r[1]).__name__})
                elif [x.tag for x in ET.fromstring(r[1])] != [x.name for x in kids]:
                    v('unchecked-order-not-insertion-order', t, case, {'after': 'replace+remove', 'replaced_at': i, 'removed_at': j})
                if [id(x) for x in e.get_children()] != [id(x) for x in kids] or \
                        [id(x) for x in e.get_children(False)] != [id(x) for x in kids]:
                    v('unchecked-children-view-differs', t, case, {'after': 'replace+remove', 'replaced_at': i, 'removed_at': j})
                elif any(x.get_parent() is not e for x in kids):
                    v('unchecked-child-parent-link-lost', t, case, {'after': 'replace+remove'})
                c['long_runs'] += len(names) >= 260
            if len(samples) < 2:
                samples.append(case)
        # ---------------- (d) children with a history: they were attached to (and detached from / replaced in) a checked
        # element before; an unchecked parent must handle them like any other child
        if alpha:
            for how in ('replaced-out', 'removed', 'still-attached-elsewhere'):
                evals += 1
                nontriv += 1
                case = {'cls': cn, 'part': 'd', 'how': how}
                P = lib.call(lambda: lib.make(cls, check=True, with_required=True))
                if P[0] == 'exc':
                    break
                P = P[1]
                sname = alpha[0]
                k = lib.make(lib.child_cls(sname))
                if lib.call(P.add_child, k)[0] == 'exc':
                    break
                if how == 'replaced-out':
                    if lib.call(P.replace_child, k, lib.make(lib.child_cls(sname)))[0] == 'exc':
                        continue
                elif how == 'removed':
                    if lib.call(P.remove, k)[0] == 'exc':
                        continue
                U = lib.make(cls, check=False)
                other = lib.make(lib.child_cls(rnd.choice(FOREIGN)))
                for step, f, a in (('add', U.add_child, (k,)), ('add', U.add_child, (other,)), ('to_string', U.to_string, ()),
                                   ('remove', U.remove, (k,)), ('to_string', U.to_string, ())):
                    r = lib.call(f, *a)
                    if r[0] == 'exc':
                        v('unchecked-%s-raises' % step.replace('_', '-'), t, case, {'msg': str(r[1])[:100], 'child_history': how},
                          {'exc': type(r[1]).__name__, 'child_history': how})
                        break
                else:
                    if [x.name for x in U.get_children()] != [other.name]:
                        v('unchecked-children-view-differs', t, case, {'child_history': how})
                    if how == 'still-attached-elsewhere':
                        # removing it from the unchecked parent must not have touched the checked parent's structure
                        if k not in P.get_children(True):
                            v('removal-from-unchecked-parent-changes-another-element', t, case)
                c['children_with_history'] += 1
        # ---------------- (f) everything that is not structural checking works on an unchecked element as on a checked one:
        # possible_children_names, reading an unset xml_ child (None), setting a child through the xml_ shortcut
        if alpha and t not in ('link', 'opus', 'part-link'):     # (any attribute-style access on these raises: listed under C19)
            evals += 1
            nontriv += 1
            U = lib.call(lambda: lib.make(cls, check=False))
            K = lib.call(lambda: lib.make(cls, check=True, with_required=True))
            if U[0] == 'ok' and K[0] == 'ok':
                U, K = U[1], K[1]
                case = {'cls': cn, 'part': 'f'}
                pu, pk = lib.call(lambda: set(U.possible_children_names)), lib.call(lambda: set(K.possible_children_names))
                if pu != pk:
                    v('unchecked-accessor-differs-from-checked', t, case, {'accessor': 'possible_children_names'},
                      {'accessor': 'possible_children_names'})
                s0 = alpha[0]
                attr = 'xml_' + s0.replace('-', '_')
                ru, rk = lib.call(getattr, U, attr), lib.call(getattr, K, attr)
                if (ru[0], ru[1] if ru[0] == 'ok' else type(ru[1]).__name__) != (rk[0], rk[1] if rk[0] == 'ok' else type(rk[1]).__name__):
                    v('unchecked-accessor-differs-from-checked', t, case, {'accessor': 'read ' + attr, 'unchecked': str(ru[1])[:80]},
                      {'accessor': 'xml-read'})
                ch = lib.make(lib.child_cls(s0))
                ru = lib.call(setattr, U, attr, ch)
                if ru[0] == 'exc':
                    v('unchecked-shortcut-raises', t, case, {'msg': str(ru[1])[:100]}, {'exc': type(ru[1]).__name__})
                elif [id(x) for x in U.get_children()] != [id(ch)] or lib.call(getattr, U, attr)[1] is not ch:
                    v('unchecked-children-view-differs', t, case, {'after': 'xml_ shortcut'})
                c['unchecked_accessor_probes'] += 1
        # ---------------- (f) possible_children_names, reading an unset xml_ child and setting a child through the xml_ shortcut behave on an unchecked element as on a checked one. (e) an unchecked score-partwise holding this element (checked, possibly incomplete) is written by
        # write() exactly as to_string() returns it: the other public way out must not bring the checks back
        if shard['slice'] == sorted(lib.CLASSES).index(cn) % NSHARDS and rnd.random() < (0.25 if tier == 'quick' else 1.0):
            import os
            import tempfile
            S = lib.CLASSES['XMLScorePartwise'](xsd_check=False)
            inner = lib.call(lambda: lib.make(cls, check=True))
            if inner[0] == 'ok':
                S.add_child(inner[1])
                evals += 1
                nontriv += 1
                fd, path = tempfile.mkstemp(prefix='mxverif-c18-', suffix='.xml')
                os.close(fd)
                try:
                    for ic in (False, True):
                        rs = lib.call(S.to_string, ic)
                        rw = lib.call(S.write, path, ic) if ic else lib.call(S.write, path)
                        if rs[0] == 'exc':
                            v('unchecked-to-string-raises', t, {'cls': cn, 'part': 'e', 'ic': ic}, {'msg': str(rs[1])[:100]},
                              {'exc': type(rs[1]).__name__})
                        elif rw[0] == 'exc':
                            v('unchecked-write-raises', t, {'cls': cn, 'part': 'e', 'ic': ic}, {'msg': str(rw[1])[:100]},
                              {'exc': type(rw[1]).__name__})
                        else:
                            data = open(path, 'rb').read().decode('utf-8')
                            if not data.endswith(rs[1]):
                                v('unchecked-write-differs-from-to-string', t, {'cls': cn, 'part': 'e', 'ic': ic})
                        c['unchecked_scores_written'] += 1
                finally:
                    os.unlink(path)
        if t not in ref.DFAS or lib.TYPES.get(t) is not cls:
            continue
        d = ref.DFAS[t]
        # ---------------- (b) byte identity for schema-valid order
        words = d.words(2 if tier == 'quick' else 3, limit=400 if tier == 'quick' else 4000) + \
            [d.random_word(rnd, 12) for _ in range(10 if tier == 'quick' else 150)]
        seen = set()
        for w in words:
            w = tuple(w)
            if w in seen:
                continue
            seen.add(w)
            evals += 1
            if w:
                nontriv += 1
            outs = {}
            refused = False
            for check in (True, False):
                e = lib.make(cls, check=check, with_required=True)
                for s in w:
                    r = lib.call(e.add_child, lib.make(lib.child_cls(s)))
                    if r[0] == 'exc':
                        refused = True
                        break
                if refused:
                    break
                r = lib.call(e.to_string)
                if r[0] == 'exc':
                    refused = True
                    break
                outs[check] = r[1]
            if refused:
                c['checked_twin_refuses_valid_word (C02)'] += 1
                continue
            c['byte_comparisons'] += 1
            if outs[True] != outs[False]:
                a = [x.tag for x in ET.fromstring(outs[True])]
                b = [x.tag for x in ET.fromstring(outs[False])]
                v('bytes-differ-from-checked-twin', t, {'cls': cn, 'word': list(w), 'part': 'b'},
                  {'checked': a, 'unchecked': b}, {'what': 'order' if sorted(a) == sorted(b) else 'content'})
        # ---------------- (c1) checked element inside an unchecked parent still validates
        evals += 1
        nontriv += 1
        U = lib.CLASSES['XMLPart'](xsd_check=False, id='P1')
        E = lib.make(cls, check=True, with_required=True)
        U.add_child(E)
        foreign = next(f for f in FOREIGN if f not in d.alpha)
        r = lib.call(E.add_child, lib.make(lib.child_cls(foreign)))
        if r[0] == 'ok':
            v('checked-inside-unchecked-accepts-foreign-child', t, {'cls': cn, 'child': foreign, 'part': 'c1'})
        if not d.accepts(()):
            E2 = lib.make(cls, check=True, with_required=True)
            U.add_child(E2)
            r = lib.call(E2.to_string)
            if r[0] == 'ok':
                v('incomplete-checked-element-serialises-itself', t, {'cls': cn, 'part': 'c1'})
            r = lib.call(U.to_string)
            if r[0] == 'exc':
                v('unchecked-to-string-raises', t, {'cls': cn, 'part': 'c1'}, {'msg': str(r[1])[:100]},
                  {'exc': type(r[1]).__name__})
        # ---------------- (c3) checked root > unchecked node > checked, INCOMPLETE node: the unchecked node is exempt, the
        # checked node below it is not: the root must refuse to serialise (and serialise once the node is completed)
        for mid_name in [s for s in d.alphabet if ref.eltype(s) in ref.DFAS][:2]:
            comp = d.completion([mid_name])
            if comp is None:
                continue
            # an element-content type that is invalid while empty, to sit below the unchecked node
            low_name = next((x for x in ('pitch', 'time-modification', 'key-accidental', 'score-part') if x != mid_name), None)
            lt = ref.eltype(low_name)
            evals += 1
            nontriv += 1
            case = {'cls': cn, 'part': 'c3', 'middle': mid_name, 'low': low_name}
            R = lib.make(cls, check=True, with_required=True)
            mid = None
            ok = True
            for s in comp:
                ch = lib.make(lib.child_cls(s))              # unchecked
                if s == mid_name and mid is None:
                    mid = ch
                if lib.call(R.add_child, ch)[0] == 'exc':
                    ok = False
                    break
            if not ok or mid is None or lib.call(R.to_string)[0] == 'exc':
                c['c3_parent_itself_refuses'] += 1
                continue
            low = lib.make(lib.child_cls(low_name), check=True, with_required=True)
            mid.add_child(low)
            r = lib.call(R.to_string)
            if r[0] == 'ok':
                v('checked-node-below-unchecked-node-not-validated', t, case, {'output': r[1][:200]})
            elif type(r[1]).__name__ != 'XMLElementChildrenRequired':
                v('unchecked-node-inside-checked-tree-is-validated', t, case, {'msg': str(r[1])[:120]}, {'exc': type(r[1]).__name__})
            # complete it: the root serialises
            for s in ref.shortest_word(lt):
                low.add_child(lib.make(lib.child_cls(s)))
            r = lib.call(R.to_string)
            if r[0] == 'exc':
                v('unchecked-node-inside-checked-tree-is-validated', t, case, {'msg': str(r[1])[:120], 'after': 'completion'},
                  {'exc': type(r[1]).__name__})
            c['c3_mixed_trees'] += 1
        # ---------------- (c2) unchecked child inside a checked, complete parent is exempt
        w = ref.shortest_word(t)
        cand = [s for s in d.alphabet if ref.eltype(s) in ref.DFAS]
        if cand:
            evals += 1
            nontriv += 1
            s0 = cand[0]
            comp = d.completion([s0])
            if comp is not None:
                P = lib.make(cls, check=True, with_required=True)
                ok = True
                odd = None
                for s in comp:
                    ch = lib.make(lib.child_cls(s))          # unchecked
                    if s == s0 and odd is None:
                        odd = ch
                        for g in FOREIGN[:3]:
                            ch.add_child(lib.make(lib.child_cls(g)))
                    if lib.call(P.add_child, ch)[0] == 'exc':
                        ok = False
                        break
                if ok:
                    r = lib.call(P.to_string)
                    if r[0] == 'exc':
                        if isinstance(r[1], Exception) and type(r[1]).__name__ in ('XMLElementChildrenRequired',) and \
                                not _plain_ok(lib, cls, comp):
                            c['parent_itself_refuses (C02)'] += 1
                        else:
                            v('unchecked-node-inside-checked-tree-is-validated', t, {'cls': cn, 'word': list(comp), 'part': 'c2'},
                              {'msg': str(r[1])[:120]}, {'exc': type(r[1]).__name__})
                    else:
                        c['exempt_unchecked_nodes_serialised'] += 1
    return {'evaluations': evals, 'distinct_nontrivial': nontriv, 'violations': viol, 'samples': samples,
            'counters': dict(c, stdio_events=len(lib.STDIO_EVENTS))}


def _plain_ok(lib, cls, word):
    e = lib.make(cls, check=True, with_required=True)
    for s in word:
        if lib.call(e.add_child, lib.make(lib.child_cls(s)))[0] == 'exc':
            return False
    return lib.call(e.to_string)[0] == 'ok'


def replay_case(rp):
    from .. import lib
    case = rp['case']
    res = run_shard({'slice': sorted(lib.CLASSES).index(case['cls']) % NSHARDS}, 'quick', rp.get('seed', 0))
    mine = [x for x in res['violations'] if x['case'].get('cls') == case['cls'] and x['sig']['kind'] == rp['sig']['kind']]
    return {'violated': bool(mine), 'violations': [m['sig'] for m in mine[:3]]}
