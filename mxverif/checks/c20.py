"""C20 — independent documents can be built concurrently from several threads.

Monitor: M-sched, a two-thread scheduler on sys.monitoring LINE events: thread A performs its first use of a class;
at its k-th executed library line thread B is started, performs its own first use to completion, and A continues.
Every k runs in a child forked from a pristine parent (library imported, nothing used).  Oracle: the result of the
same work done single-threaded in a pristine child.
"""
import collections
import json
import os
import random
import sys
import threading

from .. import ref

PROPERTY = 'C20'
LEVEL = 'exploration'
RULE = ('systematic schedule enumeration: for each chosen element class X (quick: 16 classes covering simpleContent extension, '
        'complexContent extension, nested attribute groups, anonymous types; thorough: one class per complex type), thread A '
        'does its first use of X (construct with attributes, add the children of a shortest valid word, validate, serialise) '
        'and is pre-empted once, at every executed library line k in turn (all k; a stride keeps it <= 600 points per class and family '
        'in quick), while thread B runs its own first use of X (family same) or of a class sharing attributes with X (family '
        'shared), or an incomplete / differently valued document, or after A - or both - made refused calls (misspelt attribute, wrong '
        'child, refused attribute values; class, beginning and length of every message are compared), or with both threads building their element unchecked and switching checking on through the setter, or while A probes its integer-typed attributes and values with equal values of another Python kind (2.0, '
        'Fraction(2), Decimal(2), True: the answers are part of A\'s result), to completion in the gap; each k in a child forked from a pristine parent. Both threads\' results '
        '(serialisation text or exception class) are compared with the single-threaded result from a pristine child. Plus a '
        'free-running stress (8 threads, switch interval 1e-6). non-trivial = a schedule in which B actually ran inside A\'s '
        'first use; distinct = distinct (class, family, k)')
ASSUMPTIONS = ['one pre-emption per schedule, B runs to completion in the gap: the schedule family the property names, not all '
               'interleavings', 'line granularity of sys.monitoring LINE events (statement starts)',
               'the pristine parent has imported the library but never instantiated or inspected the classes under test']
TIMEOUT = {'quick': 900, 'thorough': 5400}
QUICK_CLASSES = ['XMLWords', 'XMLNote', 'XMLPitch', 'XMLMeasure', 'XMLPart', 'XMLScorePartwise', 'XMLDirective', 'XMLBarline',
                 'XMLAccidental', 'XMLFermata', 'XMLLyric', 'XMLMetronome', 'XMLTimeModification', 'XMLCreditWords',
                 'XMLArticulations', 'XMLSound']


INTEGER_CLASSES = ['XMLBeam', 'XMLSlur', 'XMLClef', 'XMLAccord', 'XMLMidiDevice', 'XMLRepeat', 'XMLCredit', 'XMLStaffTuning',
                   'XMLSync', 'XMLBeatRepeat']


def plan(tier, seed):
    from musicxml.util.core import convert_to_xml_class_name
    if tier == 'quick':
        names = QUICK_CLASSES
    else:
        seen = {}
        for n in ref.ELEMENT_NAMES:
            t = ref.eltype(n)
            if t in ref.ALL and t not in seen and n not in ('link', 'opus', 'part-link'):
                seen[t] = convert_to_xml_class_name(n)
        names = sorted(set(seen.values()) | set(QUICK_CLASSES))
    out = [{'cls': n, 'cost': 10} for n in names]
    # classes with integer-typed attributes of each integer type of the schema: only the family that needs them
    out += [{'cls': n, 'cost': 3, 'only': 'equal-values-of-another-kind-A'} for n in INTEGER_CLASSES if n not in names]
    out.append({'cls': '*stress*', 'cost': 10})
    return out


def scenario_spec(cn, variant='first'):
    """what the first use of a class does, derived from the reference model only (no library call).
    variant='last' takes the last valid plain form of every attribute / value (for unions: the other member type)"""
    from musicxml.util.core import convert_to_xml_class_name
    name = next(n for n in ref.ELEMENT_NAMES if convert_to_xml_class_name(n) == cn)
    t = ref.eltype(name)
    spec = {'cls': cn, 'name': name, 'attrs': [], 'children': [], 'values': None}
    if t in ref.ALL:
        sb = ref.simple_base(t)
        for an, at, req in ref.attr_table(t):
            if at is None or an == 'name':
                continue
            forms = [f for f in ref.valid_forms(at) if ref.valid(at, f) and f == f.strip() and f and len(f) < 12]
            is_union = ref.primitive(at) == 'union'
            if variant == 'integers':
                # the attributes typed as integers (plus the required ones)
                if forms and (req or ref.numeric_kinds(at) == {'integer'}):
                    spec['attrs'].append((an, forms[0], req or len(spec['attrs']) < 6))
                continue
            if forms and (req or is_union or len([a for a in spec['attrs'] if not a[2]]) < 3):
                spec['attrs'].append((an, forms[0] if variant == 'first' else forms[-1], req or is_union))
        spec['attrs'] = [(a, f) for a, f, keep in spec['attrs'] if keep or variant != 'integers'][:8]
        if t in ref.DFAS:
            for s in ref.shortest_word(t):
                ct = ref.eltype(s)
                csb = ref.simple_base(ct) if ct in ref.ALL else ct
                cforms = [f for f in ref.valid_forms(csb) if ref.valid(csb, f) and f == f.strip() and f] if csb else []
                spec['children'].append((convert_to_xml_class_name(s), cforms[:3]))
    else:
        sb = t
    if sb:
        vals = [f for f in ref.valid_forms(sb) if ref.valid(sb, f) and f == f.strip() and f and len(f) < 12]
        spec['values'] = (vals[:3] if variant == 'first' else vals[::-1][:3]) or ['']
    return spec


def incomplete_spec(spec):
    from musicxml.util.core import convert_to_xml_class_name  # noqa: F401
    t = ref.eltype(spec['name'])
    if t not in ref.ALL:
        return None
    req = {a[0] for a in ref.attr_table(t) if a[2]}
    out = dict(spec)
    if req:
        out['attrs'] = [(an, lex) for an, lex in spec['attrs'] if an not in req]
        return out
    if spec['children']:
        out['children'] = []
        return out
    return None


def _cands(lex):
    import re
    out = []
    v = lex.strip()
    if re.fullmatch(r'[+-]?[0-9]+', v):
        out.append(int(v))
    elif ref.DEC.fullmatch(v):
        out.append(float(v))
    out.append(lex)
    return out


def _other_kinds(lex):
    """Python values of ANOTHER kind that compare equal to the value the scenario is going to use (2 -> 2.0, Fraction(2), True
    for 1; 0.5 -> Fraction(1, 2), Decimal): whatever the library answers to them alone, it must answer in every schedule"""
    import re
    import fractions
    import decimal
    v = lex.strip()
    out = []
    if re.fullmatch(r'[+-]?[0-9]+', v):
        i = int(v)
        out += [float(i), fractions.Fraction(i), decimal.Decimal(i)]
        if i in (0, 1):
            out.append(bool(i))
    elif ref.DEC.fullmatch(v):
        f = float(v)
        out += [fractions.Fraction(f), decimal.Decimal(f)]
        if f == int(f):
            out.append(int(f))
    return out


def do_scenario(spec):
    """the work of one thread: returns ('ok', text, outcomes of the refused / probing calls) or ('exc', class, message prefix)"""
    import musicxml.xmlelement.xmlelement as xe
    events = []

    def probe(f):
        try:
            f()
            events.append('ok')
        except Exception as e:  # noqa: BLE001
            # class, beginning AND length of the message: what another thread did must not leak into it
            events.append('%s:%s#%d' % (type(e).__name__, str(e)[:60], len(str(e))))
    try:
        cls = getattr(xe, spec['cls'])
        obj = None
        if spec['values']:
            last = None
            for lex in spec['values']:
                for pv in _cands(lex):
                    try:
                        obj = cls(pv)
                        break
                    except (TypeError, ValueError) as e:
                        last = e
                if obj is not None:
                    break
            if obj is None:
                raise last
        else:
            obj = cls()
        if spec.get('toggle'):
            # built with checking off, then switched on through the public setter before the children arrive
            vv = obj.value_
            obj = cls(vv, xsd_check=False) if spec['values'] else cls(xsd_check=False)
            obj.xsd_check = True
        if spec.get('misuse'):
            # refused calls first (their exceptions are part of ordinary use): a misspelt attribute read and write, an
            # undeclared constructor keyword, a value of the wrong kind, a child that does not belong here
            for f in (lambda: getattr(obj, 'no_such_attribute_'), lambda: setattr(obj, 'colourr', 'x'),
                      lambda: cls(no_such_keyword='x'),
                      (lambda: setattr(obj, 'value_', ('not', 'a', 'value'))) if spec['values'] else (lambda: None),
                      lambda: obj.add_child(getattr(xe, 'XMLScorePartwise')(xsd_check=False)),
                      lambda: setattr(obj, 'xml_no_such_child', None)):
                probe(f)
            # a refused value for every attribute of the scenario (each member type of a union adds its reason to the message)
            for an, lex in spec['attrs']:
                probe(lambda an=an: setattr(obj, an.replace('-', '_'), '@@refused@@'))
                probe(lambda an=an: setattr(obj, an.replace('-', '_'), -987654321.5))
        if spec.get('probe_kinds') and spec['values']:
            for alt in _other_kinds(spec['values'][0]):
                probe(lambda: cls(alt))
        for an, lex in spec['attrs']:
            last = None
            if spec.get('probe_kinds'):
                for alt in _other_kinds(lex):
                    probe(lambda: setattr(obj, an.replace('-', '_'), alt))
            for pv in _cands(lex):
                try:
                    setattr(obj, an.replace('-', '_'), pv)
                    last = None
                    break
                except (TypeError, ValueError) as e:
                    last = e
            if last is not None:
                raise last
        for ccn, cforms in spec['children']:
            ccls = getattr(xe, ccn)
            ch = None
            for lex in cforms or [None]:
                for pv in (_cands(lex) if lex is not None else [None]):
                    try:
                        ch = ccls(xsd_check=False) if pv is None else ccls(pv, xsd_check=False)
                        break
                    except (TypeError, ValueError):
                        pass
                if ch is not None:
                    break
            if ch is None:
                ch = ccls(xsd_check=False)
            obj.add_child(ch)
        return ('ok', obj.to_string(), events)
    except BaseException as e:  # noqa: BLE001
        return ('exc', type(e).__name__, str(e)[:80])


def in_child(fn):
    """run fn() in a forked child and return its JSON-able result (None if the child died)"""
    rfd, wfd = os.pipe()
    pid = os.fork()
    if pid == 0:
        try:
            os.close(rfd)
            res = fn()
            with os.fdopen(wfd, 'w') as f:
                json.dump(res, f)
        except BaseException as e:  # noqa: BLE001
            try:
                os.write(wfd, json.dumps({'child_error': repr(e)[:200]}).encode())
            except OSError:
                pass
        finally:
            os._exit(0)
    os.close(wfd)
    with os.fdopen(rfd) as f:
        data = f.read()
    os.waitpid(pid, 0)
    try:
        return json.loads(data)
    except ValueError:
        return None


def preempt_run(specA, specB, k):
    """A under the scheduler, B started at A's k-th library line; returns [rA, rB, lines executed by A, B ran inside]"""
    mon = sys.monitoring
    TOOL = 3
    marker = os.sep + 'musicxml' + os.sep
    A = threading.get_ident()
    st = {'count': 0, 'resB': None, 'inside': False, 'done': False}

    def line(code, lineno):
        if marker not in code.co_filename:
            return mon.DISABLE
        if threading.get_ident() != A:
            return None
        st['count'] += 1
        if st['count'] == k and not st['done']:
            st['done'] = True
            t = threading.Thread(target=lambda: st.__setitem__('resB', do_scenario(specB)))
            t.start()
            t.join()
            st['inside'] = True
    mon.use_tool_id(TOOL, 'mxverif-sched')
    mon.register_callback(TOOL, mon.events.LINE, line)
    mon.set_events(TOOL, mon.events.LINE)
    try:
        rA = do_scenario(specA)
    finally:
        mon.set_events(TOOL, 0)
        mon.register_callback(TOOL, mon.events.LINE, None)
        mon.free_tool_id(TOOL)
    if st['resB'] is None and k is not None and not st['done']:
        st['resB'] = do_scenario(specB)      # k beyond the end: B simply runs afterwards
    return [list(rA), list(st['resB']) if st['resB'] else None, st['count'], st['inside']]


def partner_of(cn):
    """a class of another type sharing at least three attribute names with cn (for the 'shared' family)"""
    from musicxml.util.core import convert_to_xml_class_name
    name = next(n for n in ref.ELEMENT_NAMES if convert_to_xml_class_name(n) == cn)
    t = ref.eltype(name)
    if t not in ref.ALL:
        return None
    mine = {a[0] for a in ref.attr_table(t)}
    best = None
    for n in ref.ELEMENT_NAMES:
        t2 = ref.eltype(n)
        if t2 == t or t2 not in ref.ALL or n in ('link', 'opus', 'part-link'):
            continue
        common = mine & {a[0] for a in ref.attr_table(t2)}
        if len(common) >= 3 and (best is None or len(common) > best[0]):
            best = (len(common), convert_to_xml_class_name(n))
    return best[1] if best else None


def run_stress(tier, seed):
    viol = []
    evals = 0
    names = QUICK_CLASSES[:8]
    specs = [scenario_spec(n) for n in names]
    refs = {s['cls']: in_child(lambda s=s: list(do_scenario(s))) for s in specs}
    rounds = 10 if tier == 'quick' else 60

    def stress(order):
        sys.setswitchinterval(1e-6)
        res = {}
        barrier = threading.Barrier(len(order))

        def work(i, s):
            barrier.wait()
            res[i] = list(do_scenario(s))
        ths = [threading.Thread(target=work, args=(i, s)) for i, s in enumerate(order)]
        for t in ths:
            t.start()
        for t in ths:
            t.join()
        return [[order[i]['cls'], res.get(i)] for i in range(len(order))]
    rnd = random.Random('%s:C20:stress' % seed)
    for r in range(rounds):
        order = [rnd.choice(specs) for _ in range(8)]
        out = in_child(lambda: stress(order))
        evals += 1
        if out is None or isinstance(out, dict):
            continue
        for cn, got in out:
            if got != refs[cn]:
                viol.append({'sig': {'kind': 'thread-result-differs-from-single-threaded', 'cls': cn, 'family': 'stress'},
                             'case': {'cls': cn, 'round': r}, 'detail': {'got': got, 'want': refs[cn]}})
    return {'evaluations': evals, 'distinct_nontrivial': evals, 'violations': viol,
            'samples': [{'stress_threads': 8, 'rounds': rounds}], 'counters': {'stress_rounds': rounds}}


def families_of(cn):
    """[(family, spec of thread A, spec of thread B)] for one class"""
    specA = scenario_spec(cn)
    out = [('same', specA, specA)]
    p = partner_of(cn)
    if p:
        out.append(('shared', specA, scenario_spec(p)))
    # B builds an INCOMPLETE document of the same class (required attributes withheld, or no children): alone it is refused,
    # and it must be refused in every schedule as well
    inc = incomplete_spec(specA)
    if inc is not None:
        out.append(('incomplete-B', specA, inc))
    # A makes a few refused calls before its normal work (error paths touch the shared tables too); B works normally
    out.append(('refused-calls-A', dict(specA, misuse=True), inc if inc is not None else specA))
    # both threads make refused calls (bad attribute values included): the messages each gets must be its own
    out.append(('refused-calls-both', dict(specA, misuse=True), dict(scenario_spec(cn, 'last'), misuse=True)))
    # B uses other valid values than A (for union-typed attributes: the other member type, e.g. a number instead of a token)
    alt = scenario_spec(cn, 'last')
    if alt['attrs'] != specA['attrs'] or alt['values'] != specA['values']:
        out.append(('other-values-B', specA, alt))
    # A probes, before each of its assignments, Python values of another kind that compare equal to the value B assigns
    # (2.0, Fraction(2), Decimal(2), True ...): the answers (accepted / refused with which message) are part of A's result
    # both threads build their element with checking off and switch it on through the setter before adding children
    if specA['children']:
        out.append(('check-switched-on-by-setter', dict(specA, toggle=True), dict(specA, toggle=True)))
    specI = scenario_spec(cn, 'integers')
    if any(_other_kinds(lex) for _, lex in specI['attrs']) or (specI['values'] and _other_kinds(specI['values'][0])):
        out.append(('equal-values-of-another-kind-A', dict(specI, probe_kinds=True), specI))
    return out


def run_shard(shard, tier, seed):
    from .. import lib   # noqa: F401  (imports the library; nothing is instantiated here)
    cn = shard['cls']
    if cn == '*stress*':
        return run_stress(tier, seed)
    viol = []
    c = collections.Counter()
    evals = 0
    nontriv = 0
    windows = collections.Counter()
    fams = [f for f in families_of(cn) if shard.get('only') in (None, f[0])]
    for fam, specA, specB in fams:
        refA = in_child(lambda: list(do_scenario(specA)))
        refB = in_child(lambda: list(do_scenario(specB)))
        base = in_child(lambda: preempt_run(specA, specB, None))
        if refA is None or refB is None or base is None or isinstance(base, dict):
            c['pristine_child_failed'] += 1
            continue
        n = base[2]
        c['lines_in_first_use:' + fam] = n
        limit = 600 if tier == 'quick' else 1500
        stride = max(1, -(-n // limit))
        ks = list(range(1, n + 1, stride))
        for k in ks:
            out = in_child(lambda k=k: preempt_run(specA, specB, k))
            evals += 1
            if out is None or isinstance(out, dict):
                c['child_failed'] += 1
                continue
            rA, rB, cnt, inside = out
            if inside:
                nontriv += 1
            if rA != refA or rB != refB:
                who = ('A' if rA != refA else '') + ('B' if rB != refB else '')
                viol.append({'sig': {'kind': 'thread-result-differs-from-single-threaded', 'cls': cn, 'family': fam,
                                     'thread': who},
                             'case': {'cls': cn, 'family': fam, 'partner': specB['cls'], 'k': k},
                             'detail': {'A': rA if rA != refA else 'as alone', 'B': rB if rB != refB else 'as alone'}})
                windows[fam] += 1
        c['preemption_points:' + fam] = len(ks)
        c['stride:' + fam] = stride
    return {'evaluations': evals, 'distinct_nontrivial': nontriv, 'violations': viol,
            'samples': [{'class': cn, 'families': [f[0] for f in fams], 'spec': {k: v for k, v in fams[0][1].items() if k != 'values'}}] if fams else [],
            'counters': dict(c, divergent_points=sum(windows.values())), 'exhaustive': True}


def aggregate(results, tier, seed):
    from ..engine import default_aggregate
    agg = default_aggregate(results)
    # one violation per (class, family, thread) is enough for classification; keep counts
    seen = {}
    for v in agg['violations']:
        key = json.dumps(v['sig'], sort_keys=True)
        seen.setdefault(key, []).append(v)
    agg['violations'] = [vs[0] for vs in seen.values()]
    agg['counters']['divergent_schedules_total'] = sum(len(vs) for vs in seen.values())
    return agg


def replay_case(rp):
    from .. import lib  # noqa: F401
    c = rp['case']
    if 'k' not in c:
        return {'violated': False, 'note': 'stress rounds are not replayable deterministically'}
    _, specA, specB = next(f for f in families_of(c['cls']) if f[0] == c.get('family', 'same'))
    refA = in_child(lambda: list(do_scenario(specA)))
    refB = in_child(lambda: list(do_scenario(specB)))
    out = in_child(lambda: preempt_run(specA, specB, c['k']))
    return {'violated': out[0] != refA or out[1] != refB, 'A': out[0][:2], 'B': out[1][:2] if out[1] else None}
