"""C12 — where the schema fixes the order, insertion order does not matter.

(a) permutations of multisets with a unique reference arrangement; (b) after an accepted history of additions a
still-compatible child must not be rejected (compatibility = sub-multiset search in the reference DFA).
"""
import collections
import itertools
import random

from .. import ref, genhist
from . import _histcheck

PROPERTY = 'C12'
LEVEL = 'exploration'
RULE = ('(a) per element-content type: every multiset underlying a word of length <=4 (thorough <=5) that has exactly one '
        'reference arrangement up to exchanging same-named children, in every permutation (all up to 120, seeded sample '
        'beyond): each addition must be accepted, the schema-ordered view must equal the arrangement with same-named '
        'children in insertion order (by identity) and the final check must pass. (b) every sequence of <=3 additions '
        '(<=2 for alphabets >12; thorough <=3/4) plus seeded addition-only and valid-word-guided histories: a rejected '
        'addition after accepted additions only is judged by the compatibility oracle. non-trivial: (a) a permutation of '
        'at least two different symbols, (b) a history with a rejected addition; distinct = distinct operation string')
ASSUMPTIONS = ['reference DFAs are the schema', 'children are minimal unchecked instances']
TIMEOUT = {'quick': 900, 'thorough': 5400}
PROPS = ('C12',)


def plan(tier, seed):
    out = []
    for t in sorted(ref.DFAS):
        out.append({'type': t, 'mode': 'perm', 'cost': 3000 if len(ref.DFAS[t].alphabet) > 10 else 500})
    for s in _histcheck.plan(lambda t: genhist.n_core_additions(t, genhist.nadd_for(t, tier)) + 300):
        s['mode'] = 'hist'
        out.append(s)
    return out


def unique_multisets(d, maxlen, cap):
    seen = set()
    out = []
    for w in d.words(maxlen, limit=cap * 20):
        ms = tuple(sorted(w))
        if ms in seen or len(ms) < 2:
            continue
        seen.add(ms)
        arr = d.arrangements(ms, limit=2)
        if len(arr) == 1:
            out.append((ms, arr[0]))
        if len(out) >= cap:
            break
    return out


def run_perm(cls, word, lib):
    """returns None or (kind, detail)"""
    e = lib.make(cls, check=True, with_required=True)
    kids = []
    for i, s in enumerate(word):
        k = lib.make(lib.child_cls(s))
        r = lib.call(e.add_child, k)
        if r[0] == 'exc':
            return ('perm-rejected', {'at': i, 'symbol': s, 'exc': type(r[1]).__name__})
        kids.append(k)
    return e, kids


def run_shard(shard, tier, seed):
    from .. import lib
    t = shard['type']
    if shard['mode'] == 'hist':
        n = genhist.nadd_for(t, tier)
        cores = [genhist.core_additions(t, n)]
        halos = [('addonly', 120, 12), ('guided', 120, 14)] if tier == 'quick' else [('addonly', 2000, 16), ('guided', 2500, 25)]
        return _histcheck.run(shard, tier, seed, PROPERTY, cores, halos, PROPS, shrink_per_presig=4)
    d = ref.DFAS[t]
    cls = lib.TYPES[t]
    rnd = random.Random('%s:C12:%s' % (seed, t))
    maxlen = 4 if tier == 'quick' else 5
    cap = 150 if tier == 'quick' else 1200
    viol = []
    evals = 0
    nontriv = 0
    samples = []
    c = collections.Counter()
    for ms, arr in unique_multisets(d, maxlen, cap):
        perms = set(itertools.permutations(ms))
        perms = sorted(perms)
        if len(perms) > (24 if tier == 'quick' else 120):
            perms = rnd.sample(perms, 24 if tier == 'quick' else 120)
        c['multisets'] += 1
        for p in perms:
            evals += 1
            if len(set(p)) > 1:
                nontriv += 1
            res = run_perm(cls, p, lib)
            kind = detail = None
            if isinstance(res[0], str):
                kind, detail = res
            else:
                e, kids = res
                got = lib.names(e)
                if got != list(arr):
                    kind, detail = 'perm-order', {'got': got, 'want': list(arr)}
                else:
                    pos = {id(k): i for i, k in enumerate(kids)}
                    byname = collections.defaultdict(list)
                    for ch in e.get_children():
                        byname[ch.name].append(pos.get(id(ch), -1))
                    if any(v != sorted(v) for v in byname.values()):
                        kind, detail = 'perm-same-name-order', {'got': got}
                    else:
                        vd = lib.verdict(e)
                        if vd[0] != 'ok':
                            kind, detail = 'perm-final-check', {'verdict': list(vd)}
            if kind:
                sig = {'type': t, 'kind': kind, 'half': 'a'}
                if 'exc' in detail:
                    sig['exc'] = detail['exc']
                if len(p) <= 2:
                    sig['layer'] = 'core'
                    sig['case'] = ','.join(p)
                viol.append({'sig': sig, 'case': {'type': t, 'perm': list(p), 'arrangement': list(arr)}, 'detail': detail})
            if len(samples) < 2 and len(set(p)) > 1:
                samples.append({'type': t, 'permutation': list(p), 'unique_arrangement': list(arr)})
    return {'evaluations': evals, 'distinct_nontrivial': nontriv, 'violations': viol, 'samples': samples,
            'counters': dict(c, stdio_events=len(lib.STDIO_EVENTS)), 'exhaustive': True}


def replay_case(rp):
    from .. import lib
    c = rp['case']
    if 'perm' in c:
        res = run_perm(lib.TYPES[c['type']], c['perm'], lib)
        if isinstance(res[0], str):
            return {'violated': True, 'result': res}
        e, kids = res
        got = lib.names(e)
        return {'violated': got != c['arrangement'] or lib.verdict(e)[0] != 'ok', 'ordered': got}
    return _histcheck.replay_case(rp, PROPERTY, PROPS)
