"""C03 — every element class is a faithful translation of its XSD declaration.

Monitor: inspection of the live objects after import (a quiescent point) through public accessors.
Oracle: the independent reference model; content models are compared as automata (exact language equivalence).
The space is finite and enumerated completely in both tiers.
"""
import collections

from .. import ref, automata

PROPERTY = 'C03'
LEVEL = 'exploration'
RULE = ('complete enumeration of: 441 partwise element names (class exists, unique, bound to the declared type for every '
        'declaration of that name), every element class (container language == reference DFA by product construction; '
        'attribute table == reference table in names, types and required flags; simple-content base), 45 attribute '
        'groups, 27 model groups, every simple type (class exists, base, enumeration literals, pattern, union members; plus the enumeration each class '
        'actually enforces after first use in sorted and in reversed order), '
        'and the schema copies loaded by the library vs /verif/ref (structural, annotations and whitespace ignored). '
        'An evaluation is one comparison; non-trivial = comparison of a container language, an attribute table with at '
        'least one attribute, a typed binding or a facet list')
ASSUMPTIONS = ['reference model built from /verif/ref (pinned SHA-256); its own self-test passed',
               'whether the matcher dynamically accepts exactly the declared language is C01/C02/C12, not C03']
TIMEOUT = {'quick': 600, 'thorough': 900}

PARTS = ['names', 'languages', 'attributes', 'attrgroups', 'groups', 'simpletypes', 'schema', 'enum-effective-sorted',
         'enum-effective-reversed']


def plan(tier, seed):
    return [{'part': p, 'cost': 1, 'fresh_process': p.startswith('enum-effective')} for p in PARTS]


def _v(part, name, kind, detail=None, extra=None):
    sig = {'part': part, 'name': name, 'kind': kind}
    if extra:
        sig.update(extra)
    return {'sig': sig, 'case': {'part': part, 'name': name}, 'detail': detail or {}}


def lib_particle(node):
    """particle AST read off a live XMLChildContainer node (public attributes only)"""
    from musicxml.xsd.xsdindicator import XSDSequence, XSDChoice, XSDGroup
    from musicxml.xsd.xsdelement import XSDElement
    c = node.content
    mi = node.min_occurrences
    ma = None if node.max_occurrences == 'unbounded' else node.max_occurrences
    if isinstance(c, XSDElement):
        p = ('el', c.name)
    elif isinstance(c, XSDGroup):
        kids = node.get_children()
        assert len(kids) == 1
        p = lib_particle(kids[0])
    elif isinstance(c, XSDChoice):
        p = ('cho', [lib_particle(k) for k in node.get_children()])
    elif isinstance(c, XSDSequence):
        p = ('seq', [lib_particle(k) for k in node.get_children()])
    else:
        raise TypeError(type(c).__name__)
    if (mi, ma) != (1, 1):
        p = ('rep', p, mi, ma)
    return p


def simple_class_name(tname):
    from musicxml.util.core import convert_to_xsd_class_name
    return convert_to_xsd_class_name(tname, 'simple_type')


def lib_attr_table(get):
    out = []
    for a in get():
        try:
            name = a.name
        except Exception as e:  # noqa: BLE001
            out.append(('!error', type(e).__name__, None)); continue
        try:
            tn = a.type_.__name__
        except Exception as e:  # noqa: BLE001
            tn = '!error:' + type(e).__name__
        try:
            req = bool(a.is_required)
        except Exception as e:  # noqa: BLE001
            req = '!error:' + type(e).__name__
        out.append((name, tn, req))
    return out


def compare_attr_tables(part, name, reftable, get, viol):
    """reftable: tuple of (name, type or None, required)"""
    try:
        got = lib_attr_table(get)
    except Exception as e:  # noqa: BLE001
        viol.append(_v(part, name, 'attribute-table-error', {'exc': type(e).__name__, 'msg': str(e)[:100]},
                       {'exc': type(e).__name__}))
        return 1
    want = {}
    for an, at, req in reftable:
        want[an] = (simple_class_name(at) if at is not None else None, req)
    gotd = {}
    for an, tn, req in got:
        if an in gotd:
            viol.append(_v(part, name, 'attribute-duplicated', {'attr': an}, {'attr': an}))
        gotd[an] = (tn, req)
    for an, (tn, req) in want.items():
        if an not in gotd:
            local = an.split(':')[-1]
            if ':' in an and local in gotd:
                viol.append(_v(part, name, 'attribute-prefix-dropped', {'attr': an}, {'attr': an}))
                g = gotd[local]
                if g[1] != req:
                    viol.append(_v(part, name, 'attribute-required-flag', {'attr': an, 'want': req, 'got': g[1]},
                                   {'attr': an}))
                if isinstance(g[0], str) and g[0].startswith('!error'):
                    viol.append(_v(part, name, 'attribute-type-error', {'attr': an, 'got': g[0]}, {'attr': an}))
            else:
                viol.append(_v(part, name, 'attribute-missing', {'attr': an}, {'attr': an}))
            continue
        g = gotd[an]
        if tn is not None and g[0] != tn:
            viol.append(_v(part, name, 'attribute-type', {'attr': an, 'want': tn, 'got': g[0]}, {'attr': an}))
        if g[1] != req:
            viol.append(_v(part, name, 'attribute-required-flag', {'attr': an, 'want': req, 'got': g[1]}, {'attr': an}))
    for an in gotd:
        if an not in want and not any(w.split(':')[-1] == an and ':' in w for w in want):
            viol.append(_v(part, name, 'attribute-undeclared', {'attr': an}, {'attr': str(an)}))
    return max(1, len(want))


def norm_schema(node):
    """structure of a schema node: (tag, sorted attributes, children) without annotations"""
    XS = ref.XS
    kids = [norm_schema(c) for c in node if c.tag != XS + 'annotation' and isinstance(c.tag, str)]
    return (node.tag, tuple(sorted(node.attrib.items())), tuple(kids))


def first_diff(a, b, path=''):
    if a[0] != b[0]:
        return path + ': tag %s != %s' % (a[0], b[0])
    if a[1] != b[1]:
        return path + '/%s: attributes %r != %r' % (a[0].split('}')[-1], dict(a[1]), dict(b[1]))
    if len(a[2]) != len(b[2]):
        return path + '/%s %r: %d children != %d' % (a[0].split('}')[-1], dict(a[1]).get('name'), len(a[2]), len(b[2]))
    for i, (x, y) in enumerate(zip(a[2], b[2])):
        d = first_diff(x, y, path + '/%s[%s]' % (a[0].split('}')[-1], dict(a[1]).get('name', i)))
        if d:
            return d
    return None


def run_shard(shard, tier, seed):
    from .. import lib
    from musicxml.util.core import convert_to_xml_class_name, convert_to_xsd_class_name
    part = shard['part']
    viol = []
    evals = 0
    nontriv = 0
    samples = []
    counters = collections.Counter()
    if part == 'names':
        by_class = collections.defaultdict(list)
        for n in ref.ELEMENT_NAMES:
            by_class[convert_to_xml_class_name(n)].append(n)
        for cn, ns in by_class.items():
            evals += 1
            if len(ns) > 1:
                viol.append(_v(part, cn, 'name-collision', {'names': ns}))
        for n in ref.ELEMENT_NAMES:
            cls = lib.CLASSES.get(convert_to_xml_class_name(n))
            evals += 1
            if cls is None:
                viol.append(_v(part, n, 'class-missing'))
                continue
            try:
                if cls(xsd_check=False).name != n if ref.eltype(n) in ref.ALL and ref.simple_base(ref.eltype(n)) is None \
                        else lib.make(cls).name != n:
                    viol.append(_v(part, n, 'element-name', {'got': cls().name}))
            except Exception as e:  # noqa: BLE001
                counters['instantiation_errors'] += 1
            decl_types = sorted({(d.get('type') or ref.ANON_OF_ELEMENT.get(n)) for d in ref.ELS_ALL[n]})
            got = lib.xsd_type_name(cls)
            nontriv += 1
            counters['declarations'] += len(ref.ELS_ALL[n])
            if len(decl_types) > 1:
                counters['names_with_several_declared_types'] += 1
            if got not in decl_types:
                viol.append(_v(part, n, 'type-binding', {'declared': decl_types, 'bound': got}))
            if len(samples) < 3:
                samples.append({'element': n, 'class': cls.__name__, 'declared': decl_types, 'bound': got})
        extra = sorted(set(lib.CLASSES) - {convert_to_xml_class_name(n) for n in ref.ELEMENT_NAMES})
        for cn in extra:
            evals += 1
            viol.append(_v(part, cn, 'class-without-declaration'))
    elif part == 'languages':
        from musicxml.xmlelement.containers import containers
        for cn, cls in sorted(lib.CLASSES.items()):
            t = lib.xsd_type_name(cls)
            if t not in ref.ALL:
                continue
            evals += 1
            try:
                e = lib.make(cls, check=True)
            except Exception as ex:  # noqa: BLE001
                viol.append(_v(part, cn, 'cannot-instantiate', {'exc': type(ex).__name__}, {'exc': type(ex).__name__}))
                continue
            tree = e.child_container_tree
            want = ref.DFAS.get(t)
            if want is None:
                if tree is not None:
                    viol.append(_v(part, cn, 'container-on-empty-type', {'type': t}))
                if e.possible_children_names:
                    viol.append(_v(part, cn, 'children-names-on-empty-type', {'type': t}))
                continue
            nontriv += 1
            if tree is None:
                viol.append(_v(part, cn, 'container-missing', {'type': t}))
                continue
            try:
                p = lib_particle(tree)
            except Exception as ex:  # noqa: BLE001
                viol.append(_v(part, cn, 'container-unreadable', {'exc': type(ex).__name__}))
                continue
            got = automata.DFA(p)
            counters['product_constructions'] += 1
            counters['ref_states'] += want.nstates
            same, wit = automata.equivalent(want, got)
            if not same:
                viol.append(_v(part, cn, 'language-differs', {'type': t, 'witness': list(wit),
                                                              'in_schema': want.accepts(wit), 'in_library': got.accepts(wit)},
                               {'type': t}))
            if p != ref.MODELS[t]:
                counters['structurally_different_but_checked_equivalent'] += 1
            if set(e.possible_children_names) != set(want.alpha):
                viol.append(_v(part, cn, 'possible-children-names', {'type': t}))
            if tier == 'thorough' or True:
                e2 = lib.make(cls, check=True)
                if lib_particle(e2.child_container_tree) != p:
                    viol.append(_v(part, cn, 'instances-differ', {'type': t}))
            if len(samples) < 3:
                samples.append({'class': cn, 'type': t, 'library_particle_nodes': automata.particle_size(p),
                                'dfa_states': got.nstates})
        # the shared templates themselves
        for ctn, tree in sorted(containers.items()):
            evals += 1
            counters['templates'] += 1
    elif part == 'attributes':
        for cn, cls in sorted(lib.CLASSES.items()):
            t = lib.xsd_type_name(cls)
            evals += 1
            if t not in ref.ALL:
                # simple-typed element: must have no attribute table
                continue
            table = ref.attr_table(t)
            n = compare_attr_tables(part, cn, table, cls.TYPE.get_xsd_attributes, viol)
            if table:
                nontriv += 1
            counters['attribute_pairs'] += len(table)
            sb = ref.simple_base(t)
            sc = getattr(cls.TYPE, '_SIMPLE_CONTENT', None)
            evals += 1
            want = simple_class_name(sb) if sb else None
            got = sc.__name__ if sc is not None else None
            if want != got:
                viol.append(_v(part, cn, 'simple-content-base', {'want': want, 'got': got}))
            if len(samples) < 3 and table:
                samples.append({'class': cn, 'type': t, 'attributes': [a[0] for a in table][:6], 'simple_content': sb})
        # complex types themselves (228)
        import musicxml.xsd.xsdcomplextype as xc
        for t in sorted(ref.ALL):
            cname = {'score-partwise@': 'XSDComplexTypeScorePartwise', 'part@': 'XSDComplexTypePart',
                     'measure@': 'XSDComplexTypeMeasure', 'directive@': 'XSDComplexTypeDirective'}.get(t) \
                or convert_to_xsd_class_name(t, 'complex_type')
            evals += 1
            if not hasattr(xc, cname):
                viol.append(_v(part, t, 'complex-type-class-missing'))
    elif part == 'attrgroups':
        import musicxml.xsd.xsdattribute as xa
        for g in sorted(ref.agroups):
            evals += 1
            cname = 'XSDAttributeGroup' + ''.join(p[0].upper() + p[1:] for p in g.split('-'))
            cls = getattr(xa, cname, None)
            if cls is None:
                viol.append(_v(part, g, 'attribute-group-class-missing'))
                continue
            table = []

            def walk(n):
                for c in n:
                    tg = c.tag[len(ref.XS):]
                    if tg == 'attribute':
                        table.append((c.get('ref') or c.get('name'), c.get('type'), c.get('use') == 'required'))
                    elif tg == 'attributeGroup':
                        walk(ref.agroups[c.get('ref')])
            walk(ref.agroups[g])
            nontriv += 1
            compare_attr_tables(part, g, tuple(table), cls.get_xsd_attributes, viol)
            if len(samples) < 2:
                samples.append({'attribute_group': g, 'attributes': [a[0] for a in table]})
    elif part == 'groups':
        import musicxml.xsd.xsdindicator as xi
        from musicxml.xmlelement.xmlchildcontainer import XMLChildContainer
        for g in sorted(ref.groups):
            evals += 1
            cname = 'XSDGroup' + ''.join(p[0].upper() + p[1:] for p in g.split('-'))
            cls = getattr(xi, cname, None)
            if cls is None:
                viol.append(_v(part, g, 'group-class-missing'))
                continue
            inner = [c for c in ref.groups[g] if c.tag[len(ref.XS):] in ('sequence', 'choice')]
            want = automata.DFA(ref.particle(inner[0]))
            try:
                node = XMLChildContainer(content=cls())
                got = automata.DFA(lib_particle(node))
            except Exception as ex:  # noqa: BLE001
                viol.append(_v(part, g, 'group-unreadable', {'exc': type(ex).__name__}))
                continue
            nontriv += 1
            same, wit = automata.equivalent(want, got)
            if not same:
                viol.append(_v(part, g, 'group-language-differs', {'witness': list(wit)}))
            if len(samples) < 2:
                samples.append({'group': g, 'dfa_states': got.nstates})
    elif part == 'simpletypes':
        import musicxml.xsd.xsdsimpletype as xs_
        names = sorted(ref.stypes) + sorted(ref.xml_stypes) + ['xs:decimal', 'xs:integer', 'xs:nonNegativeInteger',
                                                              'xs:positiveInteger', 'xs:string', 'xs:token', 'xs:date',
                                                              'xs:anyURI']
        for tn in names:
            evals += 1
            cname = simple_class_name(tn)
            cls = getattr(xs_, cname, None)
            if cls is None:
                viol.append(_v(part, tn, 'simple-type-class-missing'))
                continue
            if tn in ref.BUILTIN:
                continue
            nontriv += 1
            node = ref._stnode(tn)
            r = node.find(ref.XS + 'restriction')
            tree = cls.get_xsd_tree()
            want_enum = [e.get('value') for e in r.findall(ref.XS + 'enumeration')] if r is not None else []
            got_enum = list(tree.get_permitted() or [])
            if want_enum != got_enum:
                viol.append(_v(part, tn, 'enumeration-differs', {'want': want_enum[:5], 'got': got_enum[:5]}))
            if r is not None:
                base = r.get('base')
                bases = [b.__name__ for b in cls.__mro__[1:]]
                if simple_class_name(base) not in bases:
                    viol.append(_v(part, tn, 'base-type-differs', {'want': simple_class_name(base), 'mro': bases[:4]}))
                want_pat = [p.get('value') for p in r.findall(ref.XS + 'pattern')]
                rt = tree.get_restriction()
                got_pat = [c.get_attributes().get('value') for c in rt.get_children() if c.tag == 'pattern'] if rt else []
                if want_pat != got_pat:
                    viol.append(_v(part, tn, 'pattern-differs', {'want': want_pat, 'got': got_pat}))
                for tag in ('minInclusive', 'maxInclusive', 'minExclusive', 'maxExclusive', 'minLength'):
                    w = [f.get('value') for f in r.findall(ref.XS + tag)]
                    g_ = [c.get_attributes().get('value') for c in rt.get_children() if c.tag == tag] if rt else []
                    if w != g_:
                        viol.append(_v(part, tn, 'facet-differs', {'facet': tag, 'want': w, 'got': g_}, {'facet': tag}))
            u = node.find(ref.XS + 'union')
            if u is not None:
                want_members = [simple_class_name(m) for m in (u.get('memberTypes') or '').split()]
                got_members = [m.__name__ for m in getattr(cls, '_UNION', [])]
                bases = [b.__name__ for b in cls.__mro__[1:]]
                if not all(m in got_members or m in bases for m in want_members) or \
                        not all(m in want_members for m in got_members):
                    viol.append(_v(part, tn, 'union-members-differ', {'want': want_members, 'got': got_members}))
                inl = u.findall(ref.XS + 'simpleType')
                want_forced = [e.get('value') for i in inl for e in i.iter(ref.XS + 'enumeration')]
                try:
                    inst = None
                    got_forced = list(cls._FORCED_PERMITTED) or None
                    if got_forced is None:
                        # populated lazily on first instantiation
                        for probe in want_forced + ['1', 1]:
                            try:
                                inst = cls(probe); break
                            except (TypeError, ValueError):
                                pass
                        got_forced = list(inst._FORCED_PERMITTED) if inst is not None else []
                except Exception:  # noqa: BLE001
                    got_forced = []
                if sorted(want_forced) != sorted(got_forced):
                    viol.append(_v(part, tn, 'union-inline-literals-differ', {'want': want_forced, 'got': got_forced}))
            if len(samples) < 2:
                samples.append({'simple_type': tn, 'class': cname, 'enumeration': want_enum[:4]})
    elif part.startswith('enum-effective'):
        # the enumeration a type class actually enforces (after the classes were first used in a given order) must be the
        # schema's: every literal of every overlapping enumeration is offered
        import musicxml.xsd.xsdsimpletype as xs_
        names = sorted(t for t in ref.stypes if ref.enumeration(t) and ref.stypes[t].find(ref.XS + 'restriction') is not None)
        if part.endswith('reversed'):
            names.reverse()
        for tn in names:
            cls = getattr(xs_, simple_class_name(tn), None)
            if cls is None:
                continue
            want = set(ref.enumeration(tn))
            probes = sorted(want) + ref.near_miss_literals(tn, 40)
            for lit in probes:
                evals += 1
                ok = lib.call(cls, lit)[0] == 'ok'
                if ok != (lit in want):
                    viol.append(_v(part.rsplit('-', 1)[0], tn, 'effective-enumeration-differs',
                                   {'literal': lit, 'accepted': ok, 'in_schema': lit in want, 'order': part.rsplit('-', 1)[1]}))
                    break
            nontriv += 1
        samples.append({'order': part, 'enumerated_types': len(names)})
    elif part == 'schema':
        from musicxml.generate_classes.utils import musicxml_xsd_et_root, xml_xsd_et_root
        for label, a, b in (('musicxml_4_0.xsd', ref.root, musicxml_xsd_et_root), ('xml.xsd', ref.xml_root, xml_xsd_et_root)):
            evals += 1
            nontriv += 1
            na, nb = norm_schema(a), norm_schema(b)
            counters['schema_nodes_compared'] += sum(1 for _ in a.iter())
            if na != nb:
                viol.append(_v(part, label, 'loaded-schema-differs', {'first_difference': first_diff(na, nb)}))
            samples.append({'schema': label, 'nodes': sum(1 for _ in a.iter())})
    return {'evaluations': evals, 'distinct_nontrivial': nontriv, 'violations': viol, 'samples': samples,
            'counters': dict(counters), 'exhaustive': True}


def replay_case(rp):
    res = run_shard({'part': rp['case']['part']}, 'quick', 0)
    mine = [v for v in res['violations'] if v['sig'] == rp['sig']]
    return {'violated': bool(mine), 'violations': mine}
