"""C13 — element instances are isolated from one another.

Monitors: snapshots of instance A around every operation on instance B; solo-replay comparison of each interleaved
history; behaviour fingerprint of fresh instances vs a pristine forked child; fingerprints of the shared templates
(M-pristine); object-graph disjointness of the mutable matcher state.
"""
import collections
import copy
import json
import os
import random
import sys

from .. import ref, genhist

PROPERTY = 'C13'
LEVEL = 'exploration'
RULE = ('per element-content type, all in one process on purpose: interleavings of 2-4 seeded hostile histories over '
        'instances of the same class (plus a deep copy of one of them): after every operation the observable snapshot of '
        'every other instance must be unchanged, and at the end each instance must be observably identical (views, '
        'verdict / text, acceptance vector over the whole child alphabet) to a solo replay of its own history; the '
        'container graphs of the instances must be pairwise disjoint and disjoint from the shared template; the template '
        'fingerprint (shape, bounds, no attached elements, no flags) and the behaviour fingerprint of a fresh instance '
        '(status of every word <=2, verdicts, attribute probes) must equal those taken in a forked child before any work. '
        'For every element class: what a fresh element answers to seven refused calls (undeclared keyword / dot write / dot '
        'read / shortcut, wrong-kind value, serialisation while incomplete) - exception class and message - after a workload '
        'of refused calls, replacements and serialisations must equal the answers of a pristine interpreter (subprocess). '
        'non-trivial = an interleaving in which at least two instances were operated on; distinct = distinct interleaving')
ASSUMPTIONS = ['the pristine fingerprint is recomputed from the current tree on every run (never stored)',
               'XSD descriptor objects shared on purpose (XSDTree nodes) are allowed to be shared; the mutable matcher nodes '
               '(container nodes, leaf contents holding attached elements) are not']
TIMEOUT = {'quick': 900, 'thorough': 5400}


ORDERS = ['sorted', 'reversed', 'shuffle-a', 'shuffle-b']


NMSG = 4


def plan(tier, seed):
    out = [{'mode': 'order', 'order': o, 'cost': 4000, 'fresh_process': True} for o in ORDERS]
    out += [{'mode': 'messages', 'slice': i, 'cost': 1500} for i in range(NMSG)]
    for t in sorted(ref.DFAS):
        a = len(ref.DFAS[t].alphabet)
        out.append({'type': t, 'cost': (a * a + 50) * a})
    return out


def template_fingerprint(tree):
    """shape / bounds / emptiness / flags of a container tree, through public attributes"""
    out = []
    for n in tree.traverse():
        c = n.content
        out.append((type(c).__name__, getattr(c, 'name', None), n.min_occurrences, n.max_occurrences,
                    len(getattr(c, 'xml_elements', []) or []), n.chosen_child is None, n.force_validate,
                    n.requirements_fulfilled, n.get_level()))
    return out


def behaviour_fingerprint(cls, t, lib):
    from .. import hist
    d = ref.DFAS[t]
    fp = {}
    for w in d.words(2, limit=400) + [tuple(reversed(w)) for w in d.words(2, limit=60)]:
        e = lib.make(cls, check=True, with_required=True)
        st = []
        for s in w:
            r = lib.call(e.add_child, lib.make(lib.child_cls(s)))
            st.append('ok' if r[0] == 'ok' else type(r[1]).__name__)
        v = lib.verdict(e)
        fp[','.join(w)] = [st, v[0] if v[0] != 'ok' else v[1]]
    # attribute probes
    probes = {}
    for an, at, req in ref.attr_table(t)[:6]:
        if at is None:
            continue
        for lex in ([f for f in ref.valid_forms(at) if ref.valid(at, f)][:1] + ref.invalid_forms(at)[:1]):
            e = lib.make(cls)
            r = 'rejected'
            for pv in lib.py_candidates(lex):
                if lib.call(setattr, e, an.replace('-', '_'), pv)[0] == 'ok':
                    r = 'accepted'
                    break
            probes['%s=%s' % (an, lex)] = r
    fp['@'] = probes
    return fp


def graph_ids(e):
    tree = e.child_container_tree
    nodes = set()
    contents = set()
    lists = set()
    if tree is None:
        return nodes, contents, lists
    # the instance may hold a duplicated root above the node it started with
    top = tree
    while top.get_parent() is not None:
        top = top.get_parent()
    for n in top.traverse():
        nodes.add(id(n))
        contents.add(id(n.content))
        xs = getattr(n.content, 'xml_elements', None)
        if xs is not None:
            lists.add(id(xs))
    return nodes, contents, lists


def snap(e, lib):
    return (tuple(lib.ids(e, True)), tuple(lib.ids(e, False)), tuple(sorted(e.attributes.items(), key=str)), str(e.value_))


def all_attr_names():
    names = set()
    for t in ref.ALL:
        for an, at, req in ref.attr_table(t):
            names.add(an.split(':')[-1])
    return sorted(names)


def run_order(shard, tier, seed):
    """behaviour matrices computed with the classes / types first used in a given global order; the shards are
    compared with each other in aggregate(): any cell that depends on the order of first use is a violation"""
    from .. import lib
    import musicxml.xsd.xsdsimpletype as xs_
    order = shard['order']
    rnd = random.Random('%s:C13:%s' % (seed, order))

    def arrange(xs):
        xs = sorted(xs)
        if order == 'reversed':
            xs.reverse()
        elif order.startswith('shuffle'):
            rnd.shuffle(xs)
        return xs
    # (1) value acceptance: every simple type class x every enumeration literal of every type (+ a few numbers)
    literals = sorted({l for t in ref.stypes for l in ref.enumeration(t)} | {'', '1', '0', '-1', '1.5', 'x'})
    tnames = arrange(list(ref.stypes) + list(ref.xml_stypes))
    values = {}
    evals = 0
    for tn in tnames:
        tcls = getattr(xs_, 'XSDSimpleType' + lib._cap(tn.split(':')[-1]), None)
        if tcls is None:
            continue
        bits = []
        for lit in literals:
            ok = False
            for pv in lib.py_candidates(lit):
                if lib.call(tcls, pv)[0] == 'ok':
                    ok = True
                    break
            bits.append('1' if ok else '0')
            evals += 1
        values[tn] = ''.join(bits)
    # (2) attribute declared-ness: every class x every attribute name of the schema
    names = all_attr_names()
    attrs = {}
    numvals = {}
    for cn in arrange(list(lib.CLASSES)):
        cls = lib.CLASSES[cn]
        if lib.xsd_type_name(cls) not in ref.ALL:
            continue
        r = lib.call(lambda: lib.make(cls))
        if r[0] == 'exc':
            continue
        e = r[1]
        bits = []
        for an in names:
            rr = lib.call(setattr, e, an.replace('-', '_'), '@@probe@@')
            evals += 1
            if rr[0] == 'ok':
                bits.append('1')
                lib.call(setattr, e, an.replace('-', '_'), None)
            elif isinstance(rr[1], AttributeError):
                bits.append('0')          # not an attribute of this element
            else:
                bits.append('1')          # declared, value refused
        attrs[cn] = ''.join(bits)
        # numeric attribute values offered in an order that depends on the shard: acceptance of a value must not depend on
        # which other values this (or any other) element was given before
        t = lib.xsd_type_name(cls)
        for an, at, req in ref.attr_table(t):
            if at is None or not ref.numeric_kinds(at):
                continue
            probes = [1, 1.0, 0, 0.0, 2, 2.5, -1, -1.0]
            if order == 'reversed':
                probes = probes[::-1]
            elif order.startswith('shuffle'):
                rnd.shuffle(probes)
            got = {}
            for pv in probes:
                e2 = lib.make(cls)
                got[repr(pv)] = '1' if lib.call(setattr, e2, an.replace('-', '_'), pv)[0] == 'ok' else '0'
                evals += 1
            numvals['%s/@%s' % (cn, an)] = ''.join(got[repr(pv)] for pv in [1, 1.0, 0, 0.0, 2, 2.5, -1, -1.0])
    # (3) child acceptance of every container class: each symbol of the alphabet offered to a fresh element
    kids = {}
    for cn in arrange(list(lib.CONTAINER_CLASSES)):
        cls = lib.CONTAINER_CLASSES[cn]
        t = lib.xsd_type_name(cls)
        bits = []
        for sname in ref.DFAS[t].alphabet:
            e = lib.make(cls, check=True, with_required=True)
            bits.append('1' if lib.call(e.add_child, lib.make(lib.child_cls(sname)))[0] == 'ok' else '0')
            evals += 1
        kids[cn] = ''.join(bits)
    return {'evaluations': evals, 'distinct_nontrivial': evals, 'violations': [],
            'samples': [{'order': order, 'first_types': tnames[:4]}],
            'counters': {'order_cells': evals}, 'matrix': {'order': order, 'literals': literals, 'names': names,
                                                           'values': values, 'attrs': attrs, 'kids': kids, 'numvals': numvals}}


def aggregate(results, tier, seed):
    from ..engine import default_aggregate
    agg = default_aggregate(results)
    mats = [r['matrix'] for r in results if 'matrix' in r]
    agg['counters']['orders_compared'] = len(mats)
    if len(mats) >= 2:
        base = mats[0]
        for m in mats[1:]:
            for part, cols in (('values', 'literals'), ('attrs', 'names'), ('kids', None), ('numvals', None)):
                for key, bits in base[part].items():
                    other = m[part].get(key)
                    if other is None or other == bits:
                        continue
                    idx = next(i for i, (a, b) in enumerate(zip(bits, other)) if a != b)
                    what = {'values': 'value-acceptance', 'attrs': 'attribute-declaredness', 'kids': 'child-acceptance',
                            'numvals': 'numeric-attribute-value-acceptance'}[part]
                    col = base[cols][idx] if cols else idx
                    agg['violations'].append({
                        'sig': {'kind': 'behaviour-depends-on-order-of-first-use', 'what': what, 'subject': key},
                        'case': {'orders': [base['order'], m['order']], 'subject': key, 'probe': col},
                        'detail': {'in_' + base['order']: bits[idx], 'in_' + m['order']: other[idx]}})
    elif mats:
        agg['inconclusive_reason'] = 'fewer than two order shards returned'
    return agg


def message_fingerprint(lib, names):
    """what a FRESH element of each class answers to refused calls, messages included (addresses masked): undeclared
    constructor keyword, serialisation while required parts are missing, undeclared dot write / read, a value of a wrong kind"""
    import re
    out = {}

    def norm(r):
        if r[0] == 'ok':
            return 'ok'
        return '%s: %s' % (type(r[1]).__name__, re.sub(r'0x[0-9a-fA-F]+', '0x', str(r[1]))[:600])
    for cn in names:
        cls = lib.CLASSES[cn]
        dv = lib.default_value(cls)
        mk = (lambda **kw: cls(dv, **kw)) if dv is not None else (lambda **kw: cls(**kw))
        row = [norm(lib.call(mk, bogus_attribute_=1))]
        e = lib.call(mk)
        if e[0] == 'ok':
            e = e[1]
            row.append(norm(lib.call(e.to_string)))
            row.append(norm(lib.call(setattr, e, 'bogus_attribute_', 1)))
            row.append(norm(lib.call(getattr, e, 'bogus_attribute_')))
            row.append(norm(lib.call(setattr, e, 'xml_bogus_child_', None)))
            row.append(norm(lib.call(setattr, e, 'value_', ('wrong', 'kind'))))
            row.append(norm(lib.call(e.to_string)))
            t = lib.xsd_type_name(cls)
            if t in ref.ALL:
                # a refused value for the first declared attributes (union types collect one reason per member type)
                for an, at, req in [a for a in ref.attr_table(t) if a[1] is not None and a[0] != 'name'][:4]:
                    row.append(norm(lib.call(setattr, e, an.split(':')[-1].replace('-', '_'), '@@refused@@')))
        out[cn] = row
    return out


def run_messages(shard, tier, seed):
    """the answers of fresh elements to refused calls - exception class AND message - in this process, after a workload of
    refused calls, replacements and serialisations on other instances, against the answers in a pristine interpreter"""
    import subprocess
    import sys
    from .. import lib, hist
    names = [cn for i, cn in enumerate(sorted(lib.CLASSES)) if i % NMSG == shard['slice']]
    code = ('import sys, json\nsys.path[:0] = %r\nfrom mxverif import lib\nfrom mxverif.checks import c13\n'
            'json.dump(c13.message_fingerprint(lib, %r), sys.stdout)\n') % (
                [os.path.dirname(os.path.dirname(os.path.dirname(os.path.abspath(__file__)))), lib.REPO], names)
    p = subprocess.run([sys.executable, '-c', code], capture_output=True, text=True, timeout=600, env=dict(os.environ))
    try:
        pristine = json.loads(p.stdout)
    except ValueError:
        return {'evaluations': 0, 'distinct_nontrivial': 0, 'violations': [], 'samples': [],
                'counters': {'pristine_interpreter_failed': 1}}
    # workload: the refused calls themselves (on other instances), in reverse class order, plus histories with replacements
    rnd = random.Random('%s:C13:messages:%d' % (seed, shard['slice']))
    message_fingerprint(lib, list(reversed(names)))
    nops = 0
    for t in rnd.sample(sorted(ref.DFAS), 12 if tier == 'quick' else 60):
        for _ in range(3):
            h = genhist.random_history(rnd, t, 8, rnd.choice(['mixed', 'failure', 'shortcut']))
            r = hist.replay(lib.TYPES[t], t, h)
            nops += len(r.status)
    now = message_fingerprint(lib, names)
    viol = []
    for cn in names:
        if now[cn] != pristine.get(cn):
            idx = [i for i, (a, b) in enumerate(zip(now[cn], pristine.get(cn, []))) if a != b]
            probes = ['undeclared-keyword', 'to_string', 'undeclared-dot-write', 'undeclared-dot-read', 'undeclared-shortcut',
                      'wrong-kind-value', 'to_string-again']
            probe = (probes[idx[0]] if idx[0] < len(probes) else 'refused-attribute-value') if idx else 'row'
            a, b = (now[cn][idx[0]], pristine[cn][idx[0]]) if idx else ('', '')
            what = 'exception-class' if a.split(':')[0] != b.split(':')[0] else 'message'
            viol.append({'sig': {'kind': 'fresh-element-answers-differently-than-in-a-pristine-interpreter', 'probe': probe,
                                 'what': what},
                         'case': {'cls': cn, 'slice': shard['slice']}, 'detail': {'here': a[:300], 'pristine': b[:300]}})
    return {'evaluations': len(names) * 7, 'distinct_nontrivial': len(names) * 7, 'violations': viol,
            'samples': [{'class': names[0], 'answers': now[names[0]][:3]}],
            'counters': {'message_rows_compared': len(names), 'workload_operations': nops}}


def run_shard(shard, tier, seed):
    if shard.get('mode') == 'order':
        return run_order(shard, tier, seed)
    if shard.get('mode') == 'messages':
        return run_messages(shard, tier, seed)
    from .. import lib, hist
    from musicxml.xmlelement.containers import containers
    t = shard['type']
    cls = lib.TYPES[t]
    d = ref.DFAS[t]
    viol = []
    c = collections.Counter()
    evals = 0
    nontriv = 0
    samples = []

    def v(kind, case, detail=None):
        viol.append({'sig': {'kind': kind, 'type': t}, 'case': dict(case, type=t), 'detail': detail or {}})

    # ---- pristine fingerprints from a forked child (nothing of this type has been used in the parent yet)
    rfd, wfd = os.pipe()
    pid = os.fork()
    if pid == 0:
        try:
            os.close(rfd)
            fp = {'behaviour': behaviour_fingerprint(cls, t, lib),
                  'template': template_fingerprint(containers[cls.TYPE.__name__])}
            with os.fdopen(wfd, 'w') as f:
                json.dump(fp, f)
        finally:
            os._exit(0)
    os.close(wfd)
    with os.fdopen(rfd) as f:
        data = f.read()
    os.waitpid(pid, 0)
    try:
        pristine = json.loads(data)
    except ValueError:
        return {'evaluations': 0, 'distinct_nontrivial': 0, 'violations': [], 'samples': [],
                'counters': {'pristine_child_failed': 1}}
    template = containers[cls.TYPE.__name__]
    tnodes = {id(n) for n in template.traverse()} | {id(n.content) for n in template.traverse()}
    rnd = random.Random('%s:C13:%s' % (seed, t))
    nint = 12 if tier == 'quick' else 150
    for k in range(nint):
        ninst = rnd.choice([2, 2, 3, 4])
        hists = [genhist.random_history(rnd, t, rnd.choice([6, 10]), rnd.choice(['mixed', 'failure', 'guided', 'serialise']))
                 for _ in range(ninst)]
        insts = [lib.make(cls, check=True, with_required=True) for _ in range(ninst)]
        runs = [{'live': [], 'pos': 0} for _ in range(ninst)]
        schedule = []
        for i, h in enumerate(hists):
            schedule += [i] * len(h)
        rnd.shuffle(schedule)
        evals += 1
        nontriv += 1
        copies = []
        bad = False
        for step, i in enumerate(schedule):
            op = hists[i][runs[i]['pos']]
            runs[i]['pos'] += 1
            before = [snap(e, lib) for e in insts]
            _apply(insts[i], runs[i]['live'], op, lib)
            c['operations'] += 1
            for j, e in enumerate(insts):
                if j != i and snap(e, lib) != before[j]:
                    v('operation-on-one-instance-changes-another', {'hists': hists, 'schedule': schedule, 'step': step},
                      {'op': op, 'changed_instance': j})
                    bad = True
            if rnd.random() < 0.05:
                r = lib.call(copy.deepcopy, insts[i])
                if r[0] == 'ok':
                    copies.append(r[1])
                    c['deep_copies'] += 1
            if bad:
                break
        if bad:
            continue
        # graphs pairwise disjoint and disjoint from the template
        graphs = [graph_ids(e) for e in insts + copies]
        for a in range(len(graphs)):
            if (graphs[a][0] | graphs[a][1]) & tnodes:
                v('instance-shares-nodes-with-template', {'hists': hists, 'schedule': schedule})
            for b in range(a + 1, len(graphs)):
                if graphs[a][0] & graphs[b][0] or graphs[a][1] & graphs[b][1] or graphs[a][2] & graphs[b][2]:
                    v('instances-share-mutable-matcher-nodes', {'hists': hists, 'schedule': schedule},
                      {'instances': [a, b]})
        c['graph_pairs_checked'] += len(graphs) * (len(graphs) - 1) // 2
        # each interleaved instance behaves like a solo replay of its own history
        for i, e in enumerate(insts):
            solo = hist.observe(cls, t, hists[i], with_vector=True)
            got = {'ordered': lib.names(e, True), 'insertion': lib.names(e, False)}
            vec = []
            # acceptance vector of the interleaved instance: probe on copies of the history is impossible, so probe
            # on the instance itself last, one symbol at a time, each probe undone by remove when accepted
            vd = lib.verdict(e)
            got['verdict'] = vd[0] if vd[0] != 'other' else 'other:' + vd[1]
            got['text'] = vd[1] if vd[0] == 'ok' else None
            diff = [k2 for k2 in ('ordered', 'insertion', 'verdict', 'text') if got[k2] != solo[k2]]
            if diff:
                v('interleaved-instance-differs-from-solo-replay', {'hists': hists, 'schedule': schedule, 'instance': i},
                  {'differs': diff})
            c['solo_comparisons'] += 1
        if len(samples) < 2:
            samples.append({'type': t, 'instances': ninst, 'schedule': schedule[:20],
                            'histories': [hist.case_string(h) for h in hists]})
    # ---- instances created with checking off and switched on later (public xsd_check setter) are instances like any other:
    # what one of them is given must not show in another one, nor in the shared template (checked below)
    for rep in range(2):
        made = []
        for i in range(3):
            r = lib.call(lambda: lib.make(cls, check=False, with_required=True))
            if r[0] == 'exc':
                break
            r[1].xsd_check = True
            made.append(r[1])
        if len(made) < 3:
            break
        word = list(ref.shortest_word(t)) or [d.alphabet[0]]
        if rep == 1:
            word = list(d.random_word(rnd, 8)) or word
        for sname in word:
            lib.call(made[0].add_child, lib.make(lib.child_cls(sname)))
        evals += 1
        nontriv += 1
        for j in (1, 2):
            if made[j].get_children(True) or made[j].get_children(False):
                v('instances-created-unchecked-share-state', {'word': word}, {'sibling_children': lib.names(made[j])[:6]})
                break
        lib.call(made[1].add_child, lib.make(lib.child_cls(word[0])))
        if len(made[0].get_children(False)) != sum(1 for x in word if True) and \
                len(made[0].get_children(True)) > len(made[0].get_children(False)):
            v('instances-created-unchecked-share-state', {'word': word}, {'direction': 'sibling addition shows in first'})
        c['toggled_instance_probes'] += 1
    # ---- an element and its deep copy are unrelated instances: removing / changing attributes, value or children of one
    # must not show in the other (both directions)
    usable = [(an, at) for an, at, req in ref.attr_table(t) if at is not None and an != 'name'][:4]
    for an, at in usable:
        forms = [f for f in ref.valid_forms(at) if ref.valid(at, f) and f == f.strip() and f]
        if not forms:
            continue
        for direction in ('copy-changed', 'original-changed'):
            e = lib.make(cls, check=True, with_required=True)
            ok = False
            for pv in lib.py_candidates(forms[0])[::-1]:
                if lib.call(setattr, e, an.replace('-', '_'), pv)[0] == 'ok':
                    ok = True
                    break
            if not ok:
                continue
            r = lib.call(copy.deepcopy, e)
            if r[0] == 'exc':
                continue
            cp = r[1]
            a, b = (cp, e) if direction == 'copy-changed' else (e, cp)
            before = snap(b, lib)
            evals += 1
            nontriv += 1
            lib.call(setattr, a, an.replace('-', '_'), None)
            if snap(b, lib) != before:
                v('deep-copy-and-original-share-state', {'attr': an, 'direction': direction}, {'what': 'attribute removal'})
            c['copy_independence_probes'] += 1
    # ---- after the workload: templates and fresh-instance behaviour must be pristine
    evals += 2
    nontriv += 2
    now_t = json.loads(json.dumps(template_fingerprint(template)))
    if now_t != pristine['template']:
        v('shared-template-changed', {'after_interleavings': nint})
    now_b = json.loads(json.dumps(behaviour_fingerprint(cls, t, lib)))
    if now_b != pristine['behaviour']:
        keys = [k2 for k2 in now_b if now_b[k2] != pristine['behaviour'].get(k2)]
        v('fresh-instance-behaves-differently-than-in-a-pristine-process', {'after_interleavings': nint},
          {'differs_on': keys[:5]})
    c['fingerprint_words'] = len(now_b) - 1
    return {'evaluations': evals, 'distinct_nontrivial': nontriv, 'violations': viol, 'samples': samples,
            'counters': dict(c, stdio_events=len(lib.STDIO_EVENTS))}


def _apply(e, live, op, lib):
    kind = op[0]
    if kind == 'add':
        k = lib.make(lib.child_cls(op[1]))
        r = lib.call(e.add_child, k, op[2]) if op[2] is not None else lib.call(e.add_child, k)
        if r[0] == 'ok':
            live.append(k)
    elif kind == 'rm':
        if live:
            k = live[op[1] % len(live)]
            if lib.call(e.remove, k)[0] == 'ok':
                live.remove(k)
    elif kind in ('rep', 'repf', 'repi'):
        if live:
            k = live[op[1] % len(live)]
            new = lib.make(lib.child_cls(op[2]))
            if kind == 'repi':
                same = [c_ for c_ in e.get_children(True) if c_.name == k.name]
                pos = next((j for j, c_ in enumerate(same) if c_ is k), 0)
                r = lib.call(e.replace_child, (lambda c_, _n=k.name: c_.name == _n), new, pos)
            else:
                r = lib.call(e.replace_child, k, new) if kind == 'rep' else lib.call(e.replace_child, lambda c_, _k=k: c_ is _k, new)
            if r[0] == 'ok':
                live[live.index(k)] = new
    elif kind == 'set':
        ccls = lib.child_cls(op[1])
        attr = 'xml_' + op[1].replace('-', '_')
        target = next((x for x in live if x.__class__ is ccls), None)
        if op[2] == 'el':
            new = lib.make(ccls)
            if lib.call(setattr, e, attr, new)[0] == 'ok':
                if target is not None:
                    live[live.index(target)] = new
                else:
                    live.append(new)
        elif op[2] == 'val':
            val = lib.default_value(ccls)
            if val is not None and not lib.has_required_attrs(ccls):
                if lib.call(setattr, e, attr, val)[0] == 'ok' and target is None:
                    ids_ = set(map(id, live))
                    live += [x for x in e.get_children(False) if id(x) not in ids_]
        else:
            if lib.call(setattr, e, attr, None)[0] == 'ok' and target is not None:
                live.remove(target)
    elif kind == 'str':
        lib.call(e.to_string, True) if op[1] else lib.call(e.to_string)


def replay_case(rp):
    if 'slice' in rp['case']:
        res = run_messages({'slice': rp['case']['slice']}, 'quick', rp.get('seed', 0))
        mine = [x for x in res['violations'] if x['case']['cls'] == rp['case']['cls']]
        return {'violated': bool(mine), 'violations': [m['detail'] for m in mine[:2]]}
    if 'orders' in rp['case']:
        rs = [run_order({'order': o}, 'quick', rp.get('seed', 0)) for o in rp['case']['orders']]
        agg = aggregate(rs, 'quick', 0)
        mine = [x for x in agg['violations'] if x['sig'] == rp['sig']]
        return {'violated': bool(mine)}
    res = run_shard({'type': rp['case']['type']}, rp.get('tier', 'quick'), rp.get('seed', 0))
    mine = [x for x in res['violations'] if x['sig'] == rp['sig']]
    return {'violated': bool(mine)}
