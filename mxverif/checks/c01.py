"""C01 - serialised child structure is schema-valid.\n\nMonitor: M-out on every normal return of to_string (reference DFA membership of the output's child sequence)."""
from .. import ref, genhist
from . import _histcheck

PROPERTY = 'C01'
LEVEL = 'exploration'
RULE = ('per element-content type: core = every sequence of <=3 additions (<=2 when the alphabet exceeds 12; thorough <=3, <=4 for alphabets <=8), the same with the last addition offered twice, every <=2 additions (<=1 for alphabets >8) + [xsd_check off, one replacement (by object, by catch-all predicate + index) / addition / removal, xsd_check on, serialisation], and every <=1 addition (thorough <=2) followed by one removal / replacement / forward addition / shortcut, each serialised with intelligent_choice off and on; halo = seeded hostile histories (mixed, failure-biased, removal-heavy, shortcut, guided by shuffled valid words) with serialisations interleaved. A case is one history; non-trivial = it reached at least one operation; distinct = distinct operation string. Plus nested documents generated from the reference grammar and assembled through the API with the children of every level shuffled / reversed: every node of every serialisation that returns is validated. Only normal returns of to_string are judged.')
ASSUMPTIONS = ['reference DFAs built from /verif/ref/musicxml_4_0.xsd are the schema (self-tested, cross-checked by C03)', 'children are minimal unchecked instances so only the parent level is judged; parents carry their schema-required attributes', 'witnesses are shrunk by delta debugging before classification; beyond a fixed number per pre-signature they are only counted']
TIMEOUT = {'quick': 900, 'thorough': 5400}
PROPS = ('C01',)


def plan(tier, seed):
    return [{'mode': 'repotests', 'cost': 3000}] + [{'mode': 'docs', 'slice': i, 'cost': 3000} for i in range(8)] + _histcheck.plan(lambda t: (genhist.n_core_forward_first(t, 2) * 2 + genhist.n_core_additions(t, genhist.nadd_for(t, tier)) * 4 + genhist.n_core_mixed(t, 1 if tier == 'quick' else 2) * 2 + 400))


def build_nested(el, lib, docs, rnd, order_mode, c):
    """the document assembled through the API, the children of every level supplied in document / reversed / shuffled order"""
    import xml.etree.ElementTree as ET
    flat = ET.Element(el.tag, dict(el.attrib))
    flat.text = el.text
    obj = docs.build_api(flat, lib, check=True)
    kids = list(el)
    if order_mode == 'shuffle':
        rnd.shuffle(kids)
    elif order_mode == 'reverse':
        kids.reverse()
    for k in kids:
        child = build_nested(k, lib, docs, rnd, order_mode, c)
        r = lib.call(obj.add_child, child)
        if r[0] == 'exc':
            c['additions_refused'] += 1      # an out-of-order child may be refused (C12 decides that); go on without it
    return obj


def run_docs(shard, tier, seed):
    """nested documents assembled through the API with the children of every level supplied in a shuffled order: every
    checked node of every serialisation that returns is validated against the reference content model"""
    import collections
    import random
    import xml.etree.ElementTree as ET
    from .. import lib, docs
    rnd = random.Random('%s:C01:docs:%d' % (seed, shard['slice']))
    viol = []
    c = collections.Counter()
    evals = 0
    nontriv = 0
    samples = []

    def build(el, order_mode):
        return build_nested(el, lib, docs, rnd, order_mode, c)

    names = [n for i, n in enumerate(ref.ELEMENT_NAMES) if i % 8 == shard['slice'] and ref.eltype(n) in ref.DFAS]
    per = 3 if tier == 'quick' else 30
    for n in names:
        for k in range(per):
            el = ref.gen_el(n, rnd, (ref.HEIGHT[n] or 0) + rnd.choice([1, 2]), {
                'pattr': 0.2, 'maxkids': rnd.choice([3, 6]), 'skip_attrs': ('xml:lang', 'xml:space', 'name'),
                'skip_elements': ('link', 'opus', 'part-link', 'miscellaneous-field')})
            mode = rnd.choice(['shuffle', 'shuffle', 'reverse', 'document'])
            evals += 1
            try:
                obj = build(el, mode)
            except docs.BuildRefused:
                c['builder_refused'] += 1
                continue
            for ic in (False, True):
                r = lib.call(obj.to_string, ic)
                if r[0] == 'exc':
                    c['serialisation_refused'] += 1
                    continue
                nontriv += 1
                c['serialisations_validated'] += 1
                out = ET.fromstring(r[1])
                for path_err in ref.validate_doc(out, checks=('children',)):
                    word = list(path_err[3]) if len(path_err) > 3 else []
                    t = path_err[2]
                    viol.append({'sig': {'type': t, 'kind': 'invalid-word', 'mech': 'nested-document', 'insertion': mode},
                                 'case': {'text': docs.to_text(el)[:3000], 'mode': mode, 'ic': ic},
                                 'detail': {'path': path_err[0], 'word': word}})
                    c['invalid_nodes'] += 1
                c['nodes_validated'] += sum(1 for _ in out.iter())
            # the same document with ONE checked, incomplete node smuggled past its parent: a child is replaced by an empty
            # checked element of its class, then removed while the parent's checking is switched off (the setter), then
            # checking is switched on again. Whatever the library then holds, what to_string returns must be valid
            from . import c14
            cands = []
            for P in c14.nodes_of(obj):
                if not P.xsd_check:
                    continue
                for k in P.get_children(False):
                    kt = lib.xsd_type_name(type(k))
                    if kt in ref.DFAS and not ref.DFAS[kt].accepts(()):
                        cands.append((P, k))
            if cands:
                P, k = rnd.choice(cands)
                k2 = lib.call(lambda: lib.make(type(k), check=True, with_required=True))
                if k2[0] == 'ok' and lib.call(P.replace_child, k, k2[1])[0] == 'ok':
                    P.xsd_check = False
                    lib.call(P.remove, k2[1])
                    P.xsd_check = True
                    c['smuggled_incomplete_nodes'] += 1
                    for ic in (False, True):
                        r = lib.call(obj.to_string, ic)
                        if r[0] == 'exc':
                            continue
                        nontriv += 1
                        for path_err in ref.validate_doc(ET.fromstring(r[1]), checks=('children',)):
                            viol.append({'sig': {'type': path_err[2], 'kind': 'invalid-word', 'mech': 'nested-document-after-toggled-removal'},
                                         'case': {'text': docs.to_text(el)[:3000], 'mode': mode, 'ic': ic, 'smuggled': k.name},
                                         'detail': {'path': path_err[0], 'word': list(path_err[3]) if len(path_err) > 3 else []}})
                            c['invalid_nodes'] += 1
            if len(samples) < 2:
                samples.append({'root': n, 'insertion_order': mode, 'elements': sum(1 for _ in el.iter())})
    return {'evaluations': evals, 'distinct_nontrivial': nontriv, 'violations': viol, 'samples': samples,
            'counters': dict(c, stdio_events=len(lib.STDIO_EVENTS))}


def run_shard(shard, tier, seed):
    if shard.get('mode') == 'repotests':
        return _histcheck.run_repo_tests(PROPERTY)
    if shard.get('mode') == 'docs':
        return run_docs(shard, tier, seed)
    t = shard['type']
    n = genhist.nadd_for(t, tier)
    m = 1 if tier == 'quick' else 2
    cores = [genhist.with_final_str(genhist.core_forward_first(t, 2)), genhist.with_final_str(genhist.core_additions(t, n)), genhist.with_final_str(genhist.core_last_twice(t, n)), genhist.core_toggled(t, 1 if len(ref.DFAS[t].alphabet) > 8 else 2), genhist.with_final_str(genhist.core_mixed(t, m, ('rm', 'rep', 'repa', 'fwd', 'set')))]
    halos = [('mixed', 60, 10), ('failure', 30, 10), ('removal', 40, 10), ('serialise', 60, 10), ('shortcut', 20, 8), ('guided', 40, 12)] if tier == 'quick' else [('mixed', 1000, 14), ('failure', 500, 12), ('removal', 600, 14), ('serialise', 1000, 14), ('shortcut', 300, 10), ('guided', 800, 25)]
    return _histcheck.run(shard, tier, seed, PROPERTY, cores, halos, PROPS, shrink_per_presig=6)


def replay_case(rp):
    if 'text' in rp['case']:
        return {'violated': None, 'note': 'nested-document cases depend on the shuffle; rerun the docs shards with the recorded seed'}
    if 'hist' not in rp['case']:
        res = _histcheck.run_repo_tests(PROPERTY)
        return {'violated': bool(res['violations']), 'violations': res['violations'][:3]}
    return _histcheck.replay_case(rp, PROPERTY, PROPS)
