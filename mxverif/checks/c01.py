"""C01 - serialised child structure is schema-valid.\n\nMonitor: M-out on every normal return of to_string (reference DFA membership of the output's child sequence)."""
from .. import ref, genhist
from . import _histcheck

PROPERTY = 'C01'
LEVEL = 'exploration'
RULE = ('per element-content type: core = every sequence of <=3 additions (<=2 when the alphabet exceeds 12; thorough <=3, <=4 for alphabets <=8) and every <=1 addition (thorough <=2) followed by one removal / replacement / forward addition / shortcut, each serialised with intelligent_choice off and on; halo = seeded hostile histories (mixed, failure-biased, removal-heavy, shortcut, guided by shuffled valid words) with serialisations interleaved. A case is one history; non-trivial = it reached at least one operation; distinct = distinct operation string. Only normal returns of to_string are judged.')
ASSUMPTIONS = ['reference DFAs built from /verif/ref/musicxml_4_0.xsd are the schema (self-tested, cross-checked by C03)', 'children are minimal unchecked instances so only the parent level is judged; parents carry their schema-required attributes', 'witnesses are shrunk by delta debugging before classification; beyond a fixed number per pre-signature they are only counted']
TIMEOUT = {'quick': 900, 'thorough': 5400}
PROPS = ('C01',)


def plan(tier, seed):
    return [{'mode': 'repotests', 'cost': 3000}] + _histcheck.plan(lambda t: (genhist.n_core_additions(t, genhist.nadd_for(t, tier)) * 2 + genhist.n_core_mixed(t, 1 if tier == 'quick' else 2) * 2 + 400))


def run_shard(shard, tier, seed):
    if shard.get('mode') == 'repotests':
        return _histcheck.run_repo_tests(PROPERTY)
    t = shard['type']
    n = genhist.nadd_for(t, tier)
    m = 1 if tier == 'quick' else 2
    cores = [genhist.with_final_str(genhist.core_additions(t, n)), genhist.with_final_str(genhist.core_mixed(t, m, ('rm', 'rep', 'fwd', 'set')))]
    halos = [('mixed', 60, 10), ('failure', 30, 10), ('removal', 40, 10), ('serialise', 60, 10), ('shortcut', 20, 8), ('guided', 40, 12)] if tier == 'quick' else [('mixed', 1000, 14), ('failure', 500, 12), ('removal', 600, 14), ('serialise', 1000, 14), ('shortcut', 300, 10), ('guided', 800, 25)]
    return _histcheck.run(shard, tier, seed, PROPERTY, cores, halos, PROPS, shrink_per_presig=6)


def replay_case(rp):
    if 'hist' not in rp['case']:
        res = _histcheck.run_repo_tests(PROPERTY)
        return {'violated': bool(res['violations']), 'violations': res['violations'][:3]}
    return _histcheck.replay_case(rp, PROPERTY, PROPS)
