"""C16 — serialisation is well-formed, escaping-safe, deterministic and side-effect free.

(a) G-strings in every text and string-typed attribute position: xml.etree recovery, repeated calls, subtree vs parent.
(b) histories with serialisation calls interleaved vs the same history without them (M-twin).
"""
import collections
import random
import re
import xml.etree.ElementTree as ET

from .. import ref, genhist
from . import _histcheck

PROPERTY = 'C16'
LEVEL = 'exploration'
RULE = ('(a) a fixed battery plus seeded random strings over the XML Char range without carriage return (markup characters, '
        'both quotes, ]]>, non-BMP, tab / newline, whitespace runs, leading / trailing blanks, empty) offered to every '
        'element class with character content and to every string/token-typed attribute of every class (60 classes in '
        'quick); for each accepted string: to_string must parse with xml.etree, the recovered text / attribute must equal '
        'the accepted string exactly, two calls must return identical text, and the element must serialise to the same '
        'content alone and inside a parent (indentation aside). (b) per element-content type: every <=2 additions with one '
        'serialisation at every position (both flags), every <=1 addition + one other operation + serialisation, every [addition, serialisation, one change of that child, serialisation], and seeded '
        'serialisation-heavy histories: replayed without the serialisation calls, every other result and the final '
        'text / verdict / acceptance vector must agree. non-trivial = accepted string (a) / history with a successful '
        'serialisation (b)')
ASSUMPTIONS = ['xml.etree.ElementTree is the standard parser', 'strings the library rejects are not judged (only accepted ones)']
TIMEOUT = {'quick': 900, 'thorough': 5400}
PROPS = ('C16',)
NSLICES = 8

BATTERY = ['', ' ', 'plain', 'a<b', 'a>b', 'a&b', '&amp;', '&lt;tag&gt;', '"double"', "'single'", '"both\' kinds"',
           ']]>', '<![CDATA[x]]>', '<!-- c -->', '<?pi?>', ' leading', 'trailing ', '  two  spaces  ', 'tab\there',
           'line\nbreak', '\n', '\t', 'é ü ñ', 'Ω≈ç√', '𝄞 clef', '\U0001F3B5', 'a b', ' sep', '\u0085nel',
           '�', '', '%s %d {0}', '\\n \\x00', '&#10;', 'x' * 300, 'a]]>b&<"\'>']


def plan(tier, seed):
    out = [{'mode': 'strings', 'slice': i, 'cost': 2000} for i in range(NSLICES)]
    for s in _histcheck.plan(lambda t: (len(ref.DFAS[t].alphabet) * (8 if tier == 'quick' else 8 * len(ref.DFAS[t].alphabet)) + 200) * max(1, len(ref.DFAS[t].alphabet) // 2)):
        s['mode'] = 'hist'
        out.append(s)
    return out


XML_CHAR = [(0x20, 0x7e), (0xa0, 0x2ff), (0x370, 0x3ff), (0x2000, 0x206f), (0x4e00, 0x4e40), (0x1d100, 0x1d126),
            (0x1f300, 0x1f320)]


def random_string(rnd):
    n = rnd.choice([1, 2, 5, 12])
    out = []
    for _ in range(n):
        r = rnd.random()
        if r < 0.3:
            out.append(rnd.choice('<>&"\'\t\n ]'))
        else:
            lo, hi = rnd.choice(XML_CHAR)
            out.append(chr(rnd.randint(lo, hi)))
    return ''.join(out)


def dedent(text):
    return '\n'.join(l.lstrip(' ') for l in text.strip('\n').split('\n'))


def run_strings(shard, tier, seed):
    from .. import lib
    viol = []
    c = collections.Counter()
    evals = 0
    nontriv = 0
    samples = []
    rnd = random.Random('%s:C16:%d' % (seed, shard['slice']))
    strings = list(BATTERY) + [random_string(rnd) for _ in range(20 if tier == 'quick' else 150)]
    classes = sorted(lib.CLASSES.items())
    if tier == 'quick':
        # 60 classes with character content + all with string-ish attributes, dealt over the slices
        pass
    mine = [x for i, x in enumerate(classes) if i % NSLICES == shard['slice']]

    def v(kind, where, s, detail=None):
        sig = {'kind': kind, 'position': where[0], 'sclass': string_class(s)}
        viol.append({'sig': sig, 'case': {'cls': where[1], 'attr': where[2], 'string': s}, 'detail': detail or {}})

    def judge(e, where, s, attr=None):
        nonlocal nontriv
        nontriv += 1
        r1 = lib.call(e.to_string)
        if r1[0] == 'exc':
            c['serialisation_refused'] += 1
            return
        text = r1[1]
        try:
            root = ET.fromstring(text)
        except ET.ParseError as err:
            v('not-well-formed', where, s, {'err': str(err), 'text': text[:200]})
            return
        got = (root.text or '') if attr is None else root.attrib.get(attr)
        if got != s:
            v('string-not-recovered', where, s, {'got': got})
        r2 = lib.call(e.to_string)
        if r2[0] == 'exc' or r2[1] != text:
            v('repeated-call-differs', where, s)
        # inside a parent: same content, indentation aside
        parent = lib.CLASSES['XMLScorePartwise'](xsd_check=False)
        mid = lib.CLASSES['XMLPart'](xsd_check=False, id='P1')
        parent.add_child(mid)
        mid.add_child(e)
        rp = lib.call(parent.to_string)
        if rp[0] == 'ok':
            try:
                pr = ET.fromstring(rp[1])
                inner = pr[0][0]
                alone = ET.fromstring(text)
                if ET.tostring(inner).strip() != ET.tostring(alone).strip() and \
                        (inner.text, dict(inner.attrib)) != (alone.text, dict(alone.attrib)):
                    v('subtree-differs-inside-parent', where, s)
                if dedent(text) not in dedent(rp[1]):
                    c['subtree_text_not_verbatim_in_parent'] += 1
                    if (inner.text or '') == (alone.text or '') and '\n' not in s:
                        v('subtree-differs-inside-parent', where, s, {'alone': text[:120]})
            except ET.ParseError as err:
                v('not-well-formed', where, s, {'err': str(err), 'inside': 'parent'})
        mid.remove(e)

    for cn, cls in mine:
        t = lib.xsd_type_name(cls)
        sb = (ref.simple_base(t) if t in ref.ALL else t)
        if sb and ref.primitive(sb) in ('string', 'union'):
            for s in strings:
                evals += 1
                r = lib.call(cls, s, xsd_check=False)
                if r[0] == 'exc':
                    continue
                judge(r[1], ('text', cn, None), s)
                c['text_positions_accepted'] += 1
                e = r[1]
                other = 'changed'
                if lib.call(setattr, e, 'value_', other)[0] == 'ok':
                    t2 = lib.call(e.to_string)
                    twin = lib.call(cls, other, xsd_check=False)
                    if t2[0] == 'ok' and twin[0] == 'ok':
                        evals += 1
                        if t2[1] != twin[1].to_string():
                            v('earlier-serialisation-shows-after-value-change', ('text', cn, None), s, {'after': t2[1][:160]})
                if len(samples) < 2 and s:
                    samples.append({'class': cn, 'position': 'text', 'string': s})
        if t in ref.ALL:
            dv = lib.default_value(cls)
            for an, at, req in ref.attr_table(t):
                if at is None or ref.primitive(at) not in ('string', 'union') or an == 'name':
                    continue
                key = an.replace('-', '_')
                for s in (strings if tier == 'thorough' else strings[:len(BATTERY)][::2] + strings[len(BATTERY):][:6]):
                    evals += 1
                    r = lib.call(lambda: cls(dv, xsd_check=False, **{key: s}) if dv is not None else cls(xsd_check=False, **{key: s}))
                    if r[0] == 'exc':
                        continue
                    judge(r[1], ('attribute', cn, an), s, attr=an)
                    c['attribute_positions_accepted'] += 1
                    # serialise - mutate - serialise: the earlier serialisation must not show in the later one
                    e = r[1]
                    if lib.call(setattr, e, key, None)[0] == 'ok':
                        t2 = lib.call(e.to_string)
                        twin = lib.call(lambda: cls(dv, xsd_check=False) if dv is not None else cls(xsd_check=False))
                        if t2[0] == 'ok' and twin[0] == 'ok':
                            evals += 1
                            if t2[1] != twin[1].to_string():
                                v('earlier-serialisation-shows-after-attribute-removal', ('attribute', cn, an), s,
                                  {'after_removal': t2[1][:160]})
    return {'evaluations': evals, 'distinct_nontrivial': nontriv, 'violations': viol, 'samples': samples,
            'counters': dict(c, stdio_events=len(lib.STDIO_EVENTS))}


def string_class(s):
    if s == '':
        return 'empty'
    if s.isspace():
        return 'whitespace-only'
    if any(ch in s for ch in '\t\n'):
        return 'tab-or-newline'
    if s != s.strip():
        return 'padded'
    if any(ch in s for ch in '<>&"\''):
        return 'markup'
    if any(ord(ch) > 0xffff for ch in s):
        return 'non-bmp'
    if any(ord(ch) > 0x7e for ch in s):
        return 'non-ascii'
    return 'plain'


def run_shard(shard, tier, seed):
    if shard['mode'] == 'strings':
        return run_strings(shard, tier, seed)
    t = shard['type']
    a = len(ref.DFAS[t].alphabet)
    if tier == 'quick':
        cores = [genhist.core_str_anywhere(t, 2 if a <= 6 else 1),
                 genhist.with_final_str(genhist.core_mixed(t, 1, ('rm',))), genhist.core_str_then_change(t)]
        halos = [('serialise', 40, 8)]
    else:
        cores = [genhist.core_str_anywhere(t, 3 if a <= 6 else 2),
                 genhist.with_final_str(genhist.core_mixed(t, 1, ('rm', 'set', 'fwd'))), genhist.core_str_then_change(t)]
        halos = [('serialise', 600, 12), ('mixed', 200, 12)]
    return _histcheck.run(shard, tier, seed, PROPERTY, cores, halos, PROPS, shrink_per_presig=3)


def replay_case(rp):
    from .. import lib
    c = rp['case']
    if 'string' in c:
        cls = lib.CLASSES[c['cls']]
        s = c['string']
        if c.get('attr'):
            dv = lib.default_value(cls)
            kw = {c['attr'].replace('-', '_'): s}
            e = cls(dv, xsd_check=False, **kw) if dv is not None else cls(xsd_check=False, **kw)
            got = ET.fromstring(e.to_string()).attrib.get(c['attr'])
        else:
            e = cls(s, xsd_check=False)
            got = ET.fromstring(e.to_string()).text or ''
        return {'violated': got != s, 'recovered': got}
    return _histcheck.replay_case(rp, PROPERTY, PROPS)
