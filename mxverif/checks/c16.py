"""C16 — serialisation is well-formed, escaping-safe, deterministic and side-effect free.

(a) G-strings in every text and string-typed attribute position: xml.etree recovery, repeated calls, subtree vs parent.
(b) histories with serialisation calls interleaved vs the same history without them (M-twin).
"""
import collections
import random
import re
import xml.etree.ElementTree as ET

from .. import ref, genhist
from . import _histcheck

PROPERTY = 'C16'
LEVEL = 'exploration'
RULE = ('(a) a fixed battery plus seeded random strings over the XML Char range without carriage return (markup characters, '
        'both quotes, ]]>, non-BMP, tab / newline, whitespace runs, leading / trailing blanks, empty) offered to every '
        'element class with character content and to every string/token-typed attribute of every class (60 classes in '
        'quick); for each accepted string: to_string must parse with xml.etree, the recovered text / attribute must equal '
        'the accepted string exactly, two calls must return identical text, and the element must serialise to the same '
        'content alone and inside a parent (indentation aside). (b) per element-content type: every <=2 additions with one '
        'serialisation at every position (both flags), every <=1 addition + one other operation + serialisation, every [addition, serialisation, one change of that child, serialisation], and seeded '
        'serialisation-heavy histories: replayed without the serialisation calls, every other result and the final '
        'text / verdict / acceptance vector must agree. (c) nested documents (3+ levels) generated from the reference grammar: '
        'the whole tree and a subtree are serialised before and between 1-3 API mutations of nodes anywhere below (attribute, '
        'value, child added / removed); a twin that is never serialised before the end must give the same final text or '
        'refusal. (e) nested documents assembled in document / reversed / shuffled order: a root that refuses must have a node that refuses on its own under the same flag, and where the root serialises the serialisation of every node alone is contained in it. (d) value kinds: the text written for an int / float in integer- and decimal-typed positions must not depend '
        'on an equal value of the other kind serialised earlier (digits masked, fresh numbers). non-trivial = accepted '
        'string (a) / history with a successful serialisation (b) / document whose first serialisation succeeds (c) / pair '
        'of accepted values (d)')
ASSUMPTIONS = ['xml.etree.ElementTree is the standard parser', 'strings the library rejects are not judged (only accepted ones)']
TIMEOUT = {'quick': 900, 'thorough': 5400}
PROPS = ('C16',)
NSLICES = 8

BATTERY = ['', ' ', 'plain', 'a<b', 'a>b', 'a&b', '&amp;', '&lt;tag&gt;', '"double"', "'single'", '"both\' kinds"',
           ']]>', '<![CDATA[x]]>', '<!-- c -->', '<?pi?>', ' leading', 'trailing ', '  two  spaces  ', 'tab\there',
           'line\nbreak', '\n', '\t', 'é ü ñ', 'Ω≈ç√', '𝄞 clef', '\U0001F3B5', 'a b', ' sep', '\u0085nel',
           '�', '', '%s %d {0}', '\\n \\x00', '&#10;', 'x' * 300, 'a]]>b&<"\'>']


def plan(tier, seed):
    out = [{'mode': 'strings', 'slice': i, 'cost': 2000} for i in range(NSLICES)]
    out += [{'mode': 'nested', 'slice': i, 'cost': 2500} for i in range(NSLICES)]
    out += [{'mode': 'kinds', 'slice': i, 'cost': 1000} for i in range(2)]
    out += [{'mode': 'subtrees', 'slice': i, 'cost': 2000} for i in range(NSLICES)]
    for s in _histcheck.plan(lambda t: (len(ref.DFAS[t].alphabet) * (8 if tier == 'quick' else 8 * len(ref.DFAS[t].alphabet)) + 200) * max(1, len(ref.DFAS[t].alphabet) // 2)):
        s['mode'] = 'hist'
        out.append(s)
    return out


XML_CHAR = [(0x20, 0x7e), (0xa0, 0x2ff), (0x370, 0x3ff), (0x2000, 0x206f), (0x4e00, 0x4e40), (0x1d100, 0x1d126),
            (0x1f300, 0x1f320)]


def random_string(rnd):
    n = rnd.choice([1, 2, 5, 12])
    out = []
    for _ in range(n):
        r = rnd.random()
        if r < 0.3:
            out.append(rnd.choice('<>&"\'\t\n ]'))
        else:
            lo, hi = rnd.choice(XML_CHAR)
            out.append(chr(rnd.randint(lo, hi)))
    return ''.join(out)


def dedent(text):
    return '\n'.join(l.lstrip(' ') for l in text.strip('\n').split('\n'))


def run_strings(shard, tier, seed):
    from .. import lib
    viol = []
    c = collections.Counter()
    evals = 0
    nontriv = 0
    samples = []
    rnd = random.Random('%s:C16:%d' % (seed, shard['slice']))
    strings = list(BATTERY) + [random_string(rnd) for _ in range(20 if tier == 'quick' else 150)]
    classes = sorted(lib.CLASSES.items())
    if tier == 'quick':
        # 60 classes with character content + all with string-ish attributes, dealt over the slices
        pass
    mine = [x for i, x in enumerate(classes) if i % NSLICES == shard['slice']]

    def v(kind, where, s, detail=None):
        sig = {'kind': kind, 'position': where[0], 'sclass': string_class(s)}
        viol.append({'sig': sig, 'case': {'cls': where[1], 'attr': where[2], 'string': s}, 'detail': detail or {}})

    def judge(e, where, s, attr=None):
        nonlocal nontriv
        nontriv += 1
        r1 = lib.call(e.to_string)
        if r1[0] == 'exc':
            c['serialisation_refused'] += 1
            return
        text = r1[1]
        try:
            root = ET.fromstring(text)
        except ET.ParseError as err:
            v('not-well-formed', where, s, {'err': str(err), 'text': text[:200]})
            return
        got = (root.text or '') if attr is None else root.attrib.get(attr)
        if got != s:
            v('string-not-recovered', where, s, {'got': got})
        r2 = lib.call(e.to_string)
        if r2[0] == 'exc' or r2[1] != text:
            v('repeated-call-differs', where, s)
        # inside a parent: same content, indentation aside
        parent = lib.CLASSES['XMLScorePartwise'](xsd_check=False)
        mid = lib.CLASSES['XMLPart'](xsd_check=False, id='P1')
        parent.add_child(mid)
        mid.add_child(e)
        rp = lib.call(parent.to_string)
        if rp[0] == 'ok':
            try:
                pr = ET.fromstring(rp[1])
                inner = pr[0][0]
                alone = ET.fromstring(text)
                if ET.tostring(inner).strip() != ET.tostring(alone).strip() and \
                        (inner.text, dict(inner.attrib)) != (alone.text, dict(alone.attrib)):
                    v('subtree-differs-inside-parent', where, s)
                if dedent(text) not in dedent(rp[1]):
                    c['subtree_text_not_verbatim_in_parent'] += 1
                    if (inner.text or '') == (alone.text or '') and '\n' not in s:
                        v('subtree-differs-inside-parent', where, s, {'alone': text[:120]})
            except ET.ParseError as err:
                v('not-well-formed', where, s, {'err': str(err), 'inside': 'parent'})
        mid.remove(e)

    for cn, cls in mine:
        t = lib.xsd_type_name(cls)
        sb = (ref.simple_base(t) if t in ref.ALL else t)
        if sb and ref.primitive(sb) in ('string', 'union'):
            for s in strings:
                evals += 1
                r = lib.call(cls, s, xsd_check=False)
                if r[0] == 'exc':
                    continue
                judge(r[1], ('text', cn, None), s)
                c['text_positions_accepted'] += 1
                e = r[1]
                other = 'changed'
                if lib.call(setattr, e, 'value_', other)[0] == 'ok':
                    t2 = lib.call(e.to_string)
                    twin = lib.call(cls, other, xsd_check=False)
                    if t2[0] == 'ok' and twin[0] == 'ok':
                        evals += 1
                        if t2[1] != twin[1].to_string():
                            v('earlier-serialisation-shows-after-value-change', ('text', cn, None), s, {'after': t2[1][:160]})
                if len(samples) < 2 and s:
                    samples.append({'class': cn, 'position': 'text', 'string': s})
        if t in ref.ALL:
            dv = lib.default_value(cls)
            for an, at, req in ref.attr_table(t):
                if at is None or ref.primitive(at) not in ('string', 'union') or an == 'name':
                    continue
                key = an.replace('-', '_')
                for s in (strings if tier == 'thorough' else strings[:len(BATTERY)][::2] + strings[len(BATTERY):][:6]):
                    evals += 1
                    r = lib.call(lambda: cls(dv, xsd_check=False, **{key: s}) if dv is not None else cls(xsd_check=False, **{key: s}))
                    if r[0] == 'exc':
                        continue
                    judge(r[1], ('attribute', cn, an), s, attr=an)
                    c['attribute_positions_accepted'] += 1
                    # serialise - mutate - serialise: the earlier serialisation must not show in the later one
                    e = r[1]
                    if lib.call(setattr, e, key, None)[0] == 'ok':
                        t2 = lib.call(e.to_string)
                        twin = lib.call(lambda: cls(dv, xsd_check=False) if dv is not None else cls(xsd_check=False))
                        if t2[0] == 'ok' and twin[0] == 'ok':
                            evals += 1
                            if t2[1] != twin[1].to_string():
                                v('earlier-serialisation-shows-after-attribute-removal', ('attribute', cn, an), s,
                                  {'after_removal': t2[1][:160]})
    return {'evaluations': evals, 'distinct_nontrivial': nontriv, 'violations': viol, 'samples': samples,
            'counters': dict(c, stdio_events=len(lib.STDIO_EVENTS))}


def string_class(s):
    if s == '':
        return 'empty'
    if s.isspace():
        return 'whitespace-only'
    if any(ch in s for ch in '\t\n'):
        return 'tab-or-newline'
    if s != s.strip():
        return 'padded'
    if any(ch in s for ch in '<>&"\''):
        return 'markup'
    if any(ord(ch) > 0xffff for ch in s):
        return 'non-bmp'
    if any(ord(ch) > 0x7e for ch in s):
        return 'non-ascii'
    return 'plain'


def _nested_case(el, lib, mseeds, sub_index, counters=None):
    """twin A is serialised (whole tree and one subtree) before and between the mutations, twin B never before the end;
    returns None (results agree), 'inconclusive' or a violation tuple"""
    from .. import docs
    from . import c14
    c = counters if counters is not None else collections.Counter()
    try:
        A = docs.build_api(el, lib, check=True)
        B = docs.build_api(el, lib, check=True)
    except docs.BuildRefused:
        c['builder_refused'] += 1
        return 'inconclusive'
    if lib.call(A.to_string)[0] == 'exc':
        c['first_serialisation_refused'] += 1
        return 'inconclusive'
    nodes = c14.nodes_of(A)
    sub = nodes[sub_index % len(nodes)]
    lib.call(sub.to_string)
    done = []
    for ms in mseeds:
        mA = c14.mutate_tree(A, random.Random(ms), lib)
        mB = c14.mutate_tree(B, random.Random(ms), lib)
        done.append(mA)
        if mA != mB:
            return ('mutation-outcome-differs-after-serialisation', {'with_serialisations': mA, 'without': mB, 'done': done})
        if mA is None:
            break
        c['mutations_between_serialisations'] += 1
        if lib.call(A.to_string)[0] == 'exc':
            # from here on the known effects of a REFUSED serialisation would be mixed in (decided by the history shards)
            break
        lib.call(sub.to_string)
    oa, ob = c14.outcome(A, lib), c14.outcome(B, lib)
    if oa != ob:
        last = (done[-1] or 'none').split(' ')[0] if done else 'none'
        if oa[0] == 'ok' and ob[0] == 'ok':
            d = docs.infoset_diff(ET.fromstring(ob[1]), ET.fromstring(oa[1]), limit=3)
            return ('earlier-serialisation-shows-in-later-one', {'diff': [list(map(str, x)) for x in d], 'mutations': done,
                                                                 'last_mutation': last})
        return ('earlier-serialisation-changes-later-verdict', {'with_serialisations': oa[0] if oa[0] == 'ok' else oa[1],
                                                                'without': ob[0] if ob[0] == 'ok' else ob[1],
                                                                'mutations': done, 'last_mutation': last})
    return None


def run_nested(shard, tier, seed):
    """nested documents (three and more levels): serialise the whole tree and a subtree, change a node somewhere below through
    the API (attribute, value, added / removed child), serialise again ... and compare with a twin that was never serialised
    before the end"""
    from .. import lib, docs
    rnd = random.Random('%s:C16:nested:%d' % (seed, shard['slice']))
    viol = []
    c = collections.Counter()
    evals = 0
    nontriv = 0
    names = [n for i, n in enumerate(ref.ELEMENT_NAMES) if i % NSLICES == shard['slice'] and ref.eltype(n) in ref.DFAS]
    per = 3 if tier == 'quick' else 30
    trees = [(n, (ref.HEIGHT[n] or 0) + rnd.choice([2, 3])) for n in names for _ in range(per)]
    trees += [('score-partwise', rnd.choice([6, 7])) for _ in range(3 if tier == 'quick' else 20)]
    for n, depth in trees:
        el = ref.gen_el(n, rnd, depth, {'pattr': 0.3, 'maxkids': 4, 'skip_attrs': ('xml:lang', 'xml:space', 'name'),
                                       'skip_elements': ('link', 'opus', 'part-link', 'miscellaneous-field')})
        mseeds = [rnd.getrandbits(32) for _ in range(rnd.choice([1, 2, 3]))]
        sub_index = rnd.getrandbits(16)
        evals += 1
        res = _nested_case(el, lib, mseeds, sub_index, c)
        if res == 'inconclusive':
            continue
        nontriv += 1
        c['nested_documents'] += 1
        c['nested_documents_4_levels_or_more'] += _depth(el) >= 4
        if res is not None:
            removed_in = sorted({ref.eltype(m.split(' ')[1].split('>')[0]) for m in res[1].get('mutations', res[1].get('done', []))
                                 if m and m.startswith('remove ')})
            viol.append({'sig': {'kind': res[0], 'mech': 'nested-document', 'last_mutation': res[1].get('last_mutation', '?'),
                                 'removed_in': removed_in},
                         'case': {'text': docs.to_text(el), 'mseeds': mseeds, 'sub_index': sub_index}, 'detail': res[1]})
    return {'evaluations': evals, 'distinct_nontrivial': nontriv, 'violations': viol,
            'samples': [{'root': trees[0][0], 'mutations_between_serialisations': c['mutations_between_serialisations']}],
            'counters': dict(c, stdio_events=len(lib.STDIO_EVENTS))}


def _depth(el):
    return 1 + max([_depth(k) for k in el] or [0])


def _kind_positions(lib):
    """(description, constructor taking a Python value) for element-text and attribute positions typed as integers and as
    decimals that admit numbers around one million"""
    ints, decs = [], []
    for cn, cls in sorted(lib.CLASSES.items()):
        t = lib.xsd_type_name(cls)
        sb = (ref.simple_base(t) if t in ref.ALL else t)
        if sb and ref.valid(sb, '1000003'):
            kinds = ref.numeric_kinds(sb)
            if kinds == {'integer'}:
                ints.append(('%s text' % cn, lambda v, cls=cls: cls(v, xsd_check=False)))
            elif 'decimal' in kinds and ref.valid(sb, '1000003.0') and ref.primitive(sb) != 'union':
                decs.append(('%s text' % cn, lambda v, cls=cls: cls(v, xsd_check=False)))
        if t in ref.ALL:
            dv = lib.default_value(cls)
            for an, at, req in ref.attr_table(t):
                if at is None or an == 'name' or not ref.valid(at, '1000003'):
                    continue
                kinds = ref.numeric_kinds(at)
                key = an.replace('-', '_')
                mk = (lambda v, cls=cls, key=key, dv=dv: cls(dv, xsd_check=False, **{key: v}) if dv is not None
                      else cls(xsd_check=False, **{key: v}))
                if kinds == {'integer'}:
                    ints.append(('%s/@%s' % (cn, an), mk))
                elif 'decimal' in kinds and ref.valid(at, '1000003.0') and ref.primitive(at) != 'union':
                    decs.append(('%s/@%s' % (cn, an), mk))
    return ints, decs


def run_kinds(shard, tier, seed):
    """the text written for a value must not depend on which EQUAL value of another Python kind (4 vs 4.0) was serialised
    earlier in the process: each observation is made once after such a value and once with a number never serialised before;
    the two texts must agree once the digits of the number are masked"""
    from .. import lib
    rnd = random.Random('%s:C16:kinds:%d' % (seed, shard['slice']))
    viol = []
    c = collections.Counter()
    evals = 0
    nontriv = 0
    ints, decs = _kind_positions(lib)
    counter = [1000003 + 500000 * shard['slice']]

    def fresh():
        counter[0] += 7
        return counter[0]

    def emit(pos, value, n):
        r = lib.call(pos[1], value)
        if r[0] == 'exc':
            return None
        r = lib.call(r[1].to_string)
        if r[0] == 'exc':
            return None
        return r[1].replace(str(n), 'N')
    obs = [(p, int) for p in ints] + [(p, int) for p in decs] + [(p, float) for p in decs]
    trials = 400 if tier == 'quick' else 6000
    for _ in range(trials):
        (p1, k1), (p2, k2) = rnd.choice(obs), rnd.choice(obs)
        if k1 is k2:
            continue
        evals += 1
        n = fresh()
        if emit(p1, k1(n), n) is None:
            continue
        after = emit(p2, k2(n), n)
        m = fresh()
        alone = emit(p2, k2(m), m)
        if after is None or alone is None:
            continue
        nontriv += 1
        c['kind_pairs'] += 1
        if after != alone:
            viol.append({'sig': {'kind': 'text-depends-on-equal-value-of-another-kind-serialised-earlier',
                                 'first': k1.__name__, 'then': k2.__name__},
                         'case': {'first': p1[0], 'then': p2[0], 'n': n}, 'detail': {'after': after[:120], 'alone': alone[:120]}})
    return {'evaluations': evals, 'distinct_nontrivial': nontriv, 'violations': viol,
            'samples': [{'first': 'XMLAccent/@default-x = 1000010.0', 'then': 'XMLStaves text = 1000010'}],
            'counters': dict(c, integer_positions=len(ints), decimal_positions=len(decs))}


def run_subtrees(shard, tier, seed):
    """a tree serialises iff its subtrees do: nested documents assembled with the children of every level in document /
    reversed / shuffled order; if to_string(flag) of the root refuses although afterwards every node of the tree serialises on
    its own under the same flag (leaves first), the refusal was not attributable to any node. Where the root serialises, every
    node's own serialisation must be contained in it (indentation aside)."""
    from .. import lib, docs
    from . import c01, c14
    rnd = random.Random('%s:C16:subtrees:%d' % (seed, shard['slice']))
    viol = []
    c = collections.Counter()
    evals = 0
    nontriv = 0
    names = [n for i, n in enumerate(ref.ELEMENT_NAMES) if i % NSLICES == shard['slice'] and ref.eltype(n) in ref.DFAS]
    # elements that serialise ONLY with intelligent_choice=True (every sequence of <= 2 additions, thorough <= 3), placed in a
    # checked, otherwise complete parent: the parent serialised with the flag must succeed like the element alone
    import itertools
    for t in [x for i, x in enumerate(sorted(ref.DFAS)) if i % NSLICES == shard['slice']]:
        d = ref.DFAS[t]
        cls = lib.TYPES[t]
        own = next((n for n in ref.ELEMENT_NAMES if ref.eltype(n) == t and lib.cls_of_element(n) is cls), None)
        if own is None:
            continue

        def build(w):
            e = lib.make(cls, check=True, with_required=True)
            for s_ in w:
                if lib.call(e.add_child, lib.make(lib.child_cls(s_)))[0] == 'exc':
                    return None
            return e
        parent = None
        for k in range(1, (2 if tier == 'quick' or len(d.alphabet) > 12 else 3) + 1):
            for w in itertools.product(d.alphabet, repeat=k):
                e1 = build(w)
                if e1 is None or lib.call(e1.to_string)[0] == 'ok':
                    continue
                e2 = build(w)
                if lib.call(e2.to_string, True)[0] == 'exc':
                    continue
                c['elements_that_need_the_flag'] += 1
                if parent is None:
                    parent = False
                    for pn in ref.ELEMENT_NAMES:
                        pt = ref.eltype(pn)
                        if pt in ref.DFAS and pt != t and own in ref.DFAS[pt].alpha:
                            comp = ref.DFAS[pt].completion([own])
                            if comp is not None:
                                parent = (pn, comp)
                                break
                if not parent:
                    continue
                e3 = build(w)
                P = lib.make(lib.cls_of_element(parent[0]), check=True, with_required=True)
                used = False
                okp = True
                for s_ in parent[1]:
                    ch = e3 if (s_ == own and not used) else lib.make(lib.child_cls(s_))
                    used = used or s_ == own
                    if lib.call(P.add_child, ch)[0] == 'exc':
                        okp = False
                        break
                if not okp:
                    continue
                evals += 1
                nontriv += 1
                r = lib.call(P.to_string, True)
                c['flag_needing_elements_nested'] += 1
                if r[0] == 'exc':
                    viol.append({'sig': {'kind': 'tree-refused-although-every-subtree-serialises', 'intelligent_choice': 'on',
                                         'exc': type(r[1]).__name__, 'type': t},
                                 'case': {'type': t, 'word': list(w), 'parent': parent[0], 'mode': 'nested-flag', 'ic': True},
                                 'detail': {'msg': str(r[1])[:160]}})
    per = 3 if tier == 'quick' else 30
    for n in names:
        for k in range(per):
            el = ref.gen_el(n, rnd, (ref.HEIGHT[n] or 0) + rnd.choice([1, 2, 3]), {
                'pattr': 0.2, 'maxkids': rnd.choice([3, 6]), 'skip_attrs': ('xml:lang', 'xml:space', 'name'),
                'skip_elements': ('link', 'opus', 'part-link', 'miscellaneous-field')})
            mode = rnd.choice(['shuffle', 'shuffle', 'reverse', 'document'])
            for ic in (False, True):
                state = rnd.getstate()
                try:
                    obj = c01.build_nested(el, lib, docs, rnd, mode, c)
                except docs.BuildRefused:
                    c['builder_refused'] += 1
                    break
                if not ic:
                    rnd.setstate(state)           # the same insertion order for both flags
                evals += 1
                r = lib.call(obj.to_string, ic)
                nodes = c14.nodes_of(obj)
                if r[0] == 'exc':
                    # leaves first, so that a node is asked before its ancestors
                    each = [lib.call(x.to_string, ic) for x in reversed(nodes)]
                    c['root_refusals_examined'] += 1
                    if all(x[0] == 'ok' for x in each):
                        viol.append({'sig': {'kind': 'tree-refused-although-every-subtree-serialises',
                                             'intelligent_choice': 'on' if ic else 'off', 'exc': type(r[1]).__name__},
                                     'case': {'text': docs.to_text(el)[:3000], 'mode': mode, 'ic': ic},
                                     'detail': {'msg': str(r[1])[:160]}})
                    continue
                nontriv += 1
                c['trees_serialised'] += 1
                whole = dedent(r[1])
                for x in nodes[1:]:
                    rx = lib.call(x.to_string, ic)
                    if rx[0] == 'exc':
                        viol.append({'sig': {'kind': 'subtree-refused-inside-a-tree-that-serialises',
                                             'intelligent_choice': 'on' if ic else 'off', 'exc': type(rx[1]).__name__},
                                     'case': {'text': docs.to_text(el)[:3000], 'mode': mode, 'ic': ic}, 'detail': {'node': x.name}})
                        break
                    if dedent(rx[1]) not in whole:
                        viol.append({'sig': {'kind': 'subtree-differs-inside-parent', 'position': 'nested',
                                             'intelligent_choice': 'on' if ic else 'off'},
                                     'case': {'text': docs.to_text(el)[:3000], 'mode': mode, 'ic': ic},
                                     'detail': {'node': x.name, 'alone': rx[1][:160]}})
                        break
                    c['subtrees_compared'] += 1
    return {'evaluations': evals, 'distinct_nontrivial': nontriv, 'violations': viol,
            'samples': [{'root': names[0] if names else None, 'subtrees_compared': c['subtrees_compared']}],
            'counters': dict(c, stdio_events=len(lib.STDIO_EVENTS))}


def run_shard(shard, tier, seed):
    if shard['mode'] == 'subtrees':
        return run_subtrees(shard, tier, seed)
    if shard['mode'] == 'strings':
        return run_strings(shard, tier, seed)
    if shard['mode'] == 'nested':
        return run_nested(shard, tier, seed)
    if shard['mode'] == 'kinds':
        return run_kinds(shard, tier, seed)
    t = shard['type']
    a = len(ref.DFAS[t].alphabet)
    if tier == 'quick':
        cores = [genhist.core_str_anywhere(t, 2 if a <= 6 else 1),
                 genhist.with_final_str(genhist.core_mixed(t, 1, ('rm',))), genhist.core_str_then_change(t)]
        halos = [('serialise', 40, 8)]
    else:
        cores = [genhist.core_str_anywhere(t, 3 if a <= 6 else 2),
                 genhist.with_final_str(genhist.core_mixed(t, 1, ('rm', 'set', 'fwd'))), genhist.core_str_then_change(t)]
        halos = [('serialise', 600, 12), ('mixed', 200, 12)]
    return _histcheck.run(shard, tier, seed, PROPERTY, cores, halos, PROPS, shrink_per_presig=3)


def replay_case(rp):
    from .. import lib
    c = rp['case']
    if 'mode' in c and 'ic' in c:
        return {'violated': None, 'note': 'subtree cases depend on the shuffle; rerun the subtrees shards with the recorded seed'}
    if 'mseeds' in c:
        res = _nested_case(ET.fromstring(c['text'].split('?>', 1)[1]), lib, c['mseeds'], c['sub_index'])
        return {'violated': res not in (None, 'inconclusive'), 'result': res}
    if 'then' in c:
        ints, decs = _kind_positions(lib)
        pos = dict(ints + decs)
        k1, k2 = {'int': int, 'float': float}[rp['sig']['first']], {'int': int, 'float': float}[rp['sig']['then']]
        n, m = c['n'], c['n'] + 3
        pos[c['first']](k1(n)).to_string()
        after = pos[c['then']](k2(n)).to_string().replace(str(n), 'N')
        alone = pos[c['then']](k2(m)).to_string().replace(str(m), 'N')
        return {'violated': after != alone, 'after': after, 'alone': alone}
    if 'string' in c:
        cls = lib.CLASSES[c['cls']]
        s = c['string']
        if c.get('attr'):
            dv = lib.default_value(cls)
            kw = {c['attr'].replace('-', '_'): s}
            e = cls(dv, xsd_check=False, **kw) if dv is not None else cls(xsd_check=False, **kw)
            got = ET.fromstring(e.to_string()).attrib.get(c['attr'])
        else:
            e = cls(s, xsd_check=False)
            got = ET.fromstring(e.to_string()).text or ''
        return {'violated': got != s, 'recovered': got}
    return _histcheck.replay_case(rp, PROPERTY, PROPS)
