"""C19 — misuse is reported with the documented exception types, silently otherwise.

Monitors: M-exc (class of every exception escaping a public call + innermost library frame), M-stdio (proxies on
sys.stdout / sys.stderr with call-site attribution), M-steps (function-entry budget per public call: a logical,
not wall-clock, hang bound).
"""
import collections
import random

from .. import ref, genhist
from . import _histcheck

PROPERTY = 'C19'
LEVEL = 'exploration'
RULE = ('(a) per element-content type the histories of C01/C06/C10 (core: <=2 additions (<=3 for small alphabets), <=1 addition + '
        'one other operation, each also serialised with both intelligent_choice values; halo: all hostile profiles); '
        '(b) per element class a misuse battery: construction with every declared attribute (valid and invalid value) and '
        'undeclared ones, non-element / None / str / int children, the same child twice, a child of another parent, '
        'removal and replacement of a non-child, to_string of the bare element with both flags, value of every kind; '
        '(c) wide trees (hundreds of children). Every escaping exception is classified, every write to stdout/stderr '
        'during a library call is attributed to its call site, every public call runs under a step budget. '
        'non-trivial = a public call that raised or a history with at least one operation; distinct = distinct '
        'operation string / (class, misuse case)')
ASSUMPTIONS = ['documented = musicxml.exceptions.*, musicxml.xmlelement.exceptions.*, TypeError, ValueError, AttributeError from '
               'the dot-name protocol; internal = NotImplementedError, IndexError, KeyError, NameError, RecursionError, '
               'AssertionError, AttributeError mentioning NoneType, anything else',
               'step budget 3,000,000 library function entries per public call (largest seen on the unchanged tree is '
               'reported in evidence)']
TIMEOUT = {'quick': 900, 'thorough': 5400}
PROPS = ('C19',)
NSLICES = 8


def plan(tier, seed):
    out = [{'mode': 'misuse', 'slice': i, 'cost': 3000} for i in range(NSLICES)]
    out.append({'mode': 'wide', 'cost': 6000})
    for s in _histcheck.plan(lambda t: genhist.n_core_additions(t, genhist.nadd_for(t, tier, small=8)) * 3
                             + genhist.n_core_mixed(t, 1) * 2 + 400):
        s['mode'] = 'hist'
        out.append(s)
    return out


def run_misuse(shard, tier, seed):
    from .. import lib
    viol = []
    c = collections.Counter()
    evals = 0
    nontriv = 0
    samples = []
    classes = sorted(lib.CLASSES.items())
    mine = [x for i, x in enumerate(classes) if i % NSLICES == shard['slice']]
    lib.STEPS.start()
    max_steps = 0

    def judged(label, cn, t, f, *a, **k):
        nonlocal evals, nontriv, max_steps
        evals += 1
        n0 = len(lib.STDIO_EVENTS)
        lib.STEPS.begin(3_000_000)
        r = lib.call(f, *a, **k)
        max_steps = max(max_steps, lib.STEPS.end())
        if r[0] == 'exc':
            nontriv += 1
            cl = lib.classify_exception(r[1], dot_name=label.startswith(('dot', 'kw-undeclared', 'read')))
            if cl != 'documented':
                viol.append({'sig': {'kind': cl, 'type': t, 'site': lib.raise_site(r[1]), 'op': label.split(':')[0]},
                             'case': {'cls': cn, 'call': label}, 'detail': {'msg': str(r[1])[:160]}})
        for ev in lib.STDIO_EVENTS[n0:]:
            viol.append({'sig': {'kind': 'stdio:' + ev[0], 'type': t, 'site': ev[1], 'op': label.split(':')[0]},
                         'case': {'cls': cn, 'call': label}, 'detail': {'text': ev[2]}})
        return r

    other_parent = lib.CLASSES['XMLPart'](xsd_check=False, id='P1')
    for cn, cls in mine:
        t = lib.xsd_type_name(cls)
        dv = lib.default_value(cls)
        mk = (lambda **kw: cls(dv, **kw)) if dv is not None else (lambda **kw: cls(**kw))
        r = judged('construct', cn, t, mk)
        if r[0] == 'exc':
            continue
        for ic in (False, True):
            e = mk()
            judged('to_string:%s' % ic, cn, t, e.to_string, ic)
        # values of every kind
        for val in ('', 'x', 0, 1, -1, 1.5, None, True, [], {}, object(), b'x', 10 ** 20, float('nan')):
            judged('value:%s' % type(val).__name__, cn, t, lambda v=val: cls(v))
        # attributes: declared (valid, invalid), undeclared
        if t in ref.ALL:
            for an, at, req in ref.attr_table(t):
                key = an.split(':')[-1].replace('-', '_')
                vals = ['x', 1, -1.5, None, '', object()]
                if at is not None:
                    vals += [f for f in ref.valid_forms(at) if ref.valid(at, f)][:1]
                for val in vals:
                    judged('kw:%s' % an, cn, t, lambda v=val, k=key: mk(**{k: v}))
                    e = mk()
                    judged('dot:%s' % an, cn, t, setattr, e, key, val)
                e = mk()
                judged('read:%s' % an, cn, t, getattr, e, key)
        for key in ('foo', 'xml_foo', 'Type', '__x', 'xml_', 'value', 'parent'):
            e = mk()
            judged('kw-undeclared:%s' % key, cn, t, lambda k=key: mk(**{k: 'x'}))
            judged('dot-undeclared:%s' % key, cn, t, setattr, e, key, 'x')
            judged('read-undeclared:%s' % key, cn, t, getattr, e, key)
        # children misuse
        for check in (True, False):
            for bad in (None, 'x', 5, object(), cls):
                e = mk(xsd_check=check)
                judged('add-non-element:%s' % type(bad).__name__, cn, t, e.add_child, bad)
            e = mk(xsd_check=check)
            names = ref.DFAS[t].alphabet if t in ref.DFAS else ['pitch']
            k = lib.make(lib.child_cls(names[0]))
            judged('add', cn, t, e.add_child, k)
            judged('add-same-object-twice', cn, t, e.add_child, k)
            judged('to_string-after-double-add', cn, t, e.to_string)
            k2 = lib.make(lib.child_cls(names[0]))
            other_parent.add_child(k2)
            e2 = mk(xsd_check=check)
            judged('add-child-of-another-parent', cn, t, e2.add_child, k2)
            e3 = mk(xsd_check=check)
            stranger = lib.make(lib.child_cls(names[0]))
            judged('remove-non-child', cn, t, e3.remove, stranger)
            judged('replace-non-child', cn, t, e3.replace_child, stranger, lib.make(lib.child_cls(names[0])))
            judged('replace-with-non-element', cn, t, e.replace_child, k, 'x')
            if check:
                # offers that would close a parent cycle: the element itself, and an ancestor offered to its descendant; where
                # they are refused, everything must still work afterwards (serialisation, level, root)
                e4 = mk(xsd_check=True)
                r4 = judged('add-self', cn, t, e4.add_child, e4)
                if r4[0] == 'exc':
                    judged('to_string-after-refused-self-offer', cn, t, e4.to_string)
                    judged('get-root-after-refused-self-offer', cn, t, lambda: (e4.get_level(), e4.get_parent()))
                e5 = mk(xsd_check=True)
                k5 = lib.make(lib.child_cls(next((n for n in names if n not in ('link', 'opus', 'part-link')), names[0])), check=True)
                if lib.call(e5.add_child, k5)[0] == 'ok':
                    r5 = judged('add-ancestor-to-descendant', cn, t, k5.add_child, e5)
                    if r5[0] == 'exc':
                        judged('to_string-after-refused-ancestor-offer', cn, t, e5.to_string)
                        judged('to_string-after-refused-ancestor-offer', cn, t, k5.to_string)
                        judged('get-root-after-refused-ancestor-offer', cn, t, lambda: (e5.get_level(), k5.get_level()))
            judged('find-child', cn, t, e.find_child, 'XMLNope')
            judged('get-children', cn, t, e.get_children)
        c['classes'] += 1
        if len(samples) < 2:
            samples.append({'class': cn, 'calls': evals})
    lib.STEPS.stop()
    return {'evaluations': evals, 'distinct_nontrivial': nontriv, 'violations': viol, 'samples': samples,
            'counters': dict(c, stdio_events=len(lib.STDIO_EVENTS)), 'max_steps': max_steps}


def run_wide(shard, tier, seed):
    """long runs of children under unbounded parents: the step counter bounds every call"""
    from .. import lib
    viol = []
    evals = 0
    lib.STEPS.start()
    max_steps = 0
    c = collections.Counter()
    cases = [('XMLMeasure', 'note', {'number': '1'}), ('XMLPart', 'measure', {'id': 'P1'}), ('XMLArticulations', 'accent', {}),
             ('XMLDynamics', 'p', {}), ('XMLNotations', 'slur', {}), ('XMLAttributes', 'clef', {}),
             ('XMLDirection', 'direction-type', {}), ('XMLHarmony', 'degree', {})]
    n = 150 if tier == 'quick' else 600
    for cn, child, kw in cases:
        cls = lib.CLASSES[cn]
        t = lib.xsd_type_name(cls)
        e = cls(**kw)
        for i in range(n):
            evals += 1
            lib.STEPS.begin(3_000_000)
            r = lib.call(e.add_child, lib.make(lib.child_cls(child)))
            max_steps = max(max_steps, lib.STEPS.end())
            if r[0] == 'exc':
                cl = lib.classify_exception(r[1])
                if cl != 'documented':
                    viol.append({'sig': {'kind': cl, 'type': t, 'site': lib.raise_site(r[1]), 'op': 'add-wide'},
                                 'case': {'cls': cn, 'child': child, 'n': i}, 'detail': {'msg': str(r[1])[:100]}})
                break
        for ic in (False, True):
            evals += 1
            lib.STEPS.begin(30_000_000)
            r = lib.call(e.to_string, ic)
            max_steps = max(max_steps, lib.STEPS.end())
            if r[0] == 'exc':
                cl = lib.classify_exception(r[1])
                if cl != 'documented':
                    viol.append({'sig': {'kind': cl, 'type': t, 'site': lib.raise_site(r[1]), 'op': 'to_string-wide'},
                                 'case': {'cls': cn, 'child': child, 'n': n}, 'detail': {'msg': str(r[1])[:100]}})
        c['wide_elements'] += 1
    lib.STEPS.stop()
    return {'evaluations': evals, 'distinct_nontrivial': evals, 'violations': viol,
            'samples': [{'class': 'XMLMeasure', 'children': n}], 'counters': dict(c), 'max_steps': max_steps}


def run_shard(shard, tier, seed):
    if shard['mode'] == 'misuse':
        return run_misuse(shard, tier, seed)
    if shard['mode'] == 'wide':
        return run_wide(shard, tier, seed)
    t = shard['type']
    n = genhist.nadd_for(t, tier, small=8)
    cores = [genhist.core_additions(t, n), genhist.with_final_str(genhist.core_additions(t, min(n, 2))),
             genhist.core_mixed(t, 1), genhist.with_final_str(genhist.core_mixed(t, 1, ('rm', 'fwd', 'set')), ics=(True,))]
    if tier == 'quick':
        halos = [('mixed', 60, 10), ('failure', 60, 10), ('removal', 30, 10), ('serialise', 40, 10), ('shortcut', 30, 8),
                 ('guided', 40, 12), ('longrun', 4, 60)]
    else:
        halos = [('mixed', 1000, 14), ('failure', 1000, 12), ('removal', 400, 12), ('serialise', 600, 12),
                 ('shortcut', 400, 10), ('guided', 800, 25), ('longrun', 30, 200)]
    return _histcheck.run(shard, tier, seed, PROPERTY, cores, halos, PROPS, shrink_per_presig=0)


def replay_case(rp):
    from .. import lib
    c = rp['case']
    if 'hist' in c:
        return _histcheck.replay_case(rp, PROPERTY, PROPS)
    res = run_misuse({'slice': sorted(lib.CLASSES).index(c['cls']) % NSLICES}, 'quick', 0) if 'call' in c else \
        run_wide({}, 'quick', 0)
    mine = [x for x in res['violations'] if x['case'].get('cls') == c['cls'] and x['sig'] == rp['sig']]
    return {'violated': bool(mine), 'violations': [m['detail'] for m in mine[:3]]}
