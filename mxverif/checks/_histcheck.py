"""Shared driver for the history-based checks."""
import itertools
import random

from .. import ref, genhist

SHARD_COST = 4000


def plan(costfn):
    """one or more shards per type: big types are cut into parts (histories are dealt round-robin)"""
    out = []
    for t in sorted(ref.DFAS):
        c = costfn(t)
        parts = max(1, min(16, int(c // SHARD_COST)))
        for i in range(parts):
            out.append({'type': t, 'part': i, 'parts': parts, 'cost': c / parts})
    return out


def run(shard, tier, seed, prop, cores, halos, props=None, shrink_per_presig=3, child_value_none=False, child_moved=False):
    """cores: list of iterables of histories (seed independent); halos: list of (profile, count, maxlen)"""
    from .. import lib, hist
    hist.CHILD_VALUE_NONE[0] = bool(child_value_none)
    hist.CHILD_MOVED[0] = lib.TYPES[shard['type']] if child_moved else None
    try:
        res = _run(shard, tier, seed, prop, cores, halos, props, shrink_per_presig)
    finally:
        hist.CHILD_VALUE_NONE[0] = False
        hist.CHILD_MOVED[0] = None
    if child_moved:
        for v in res['violations']:
            v['case']['child_moved'] = True
            v['sig']['children'] = 'moved-from-another-element'
    if child_value_none:
        for v in res['violations']:
            v['case']['child_value_none'] = True
            v['sig']['children'] = 'value_=None'
    return res


def _run(shard, tier, seed, prop, cores, halos, props=None, shrink_per_presig=3):
    from .. import lib, hist
    t = shard['type']
    part, parts = shard.get('part', 0), shard.get('parts', 1)
    cls = lib.TYPES[t]
    hist.VECTOR_LIMIT[0] = 12 if tier == 'quick' else None
    col = hist.Collector(cls, t, prop, props, shrink_per_presig)
    lib.COVERAGE.start(); lib.STEPS.start()
    ncore = 0
    idx = 0
    for core in cores:
        for h in core:
            idx += 1
            if idx % parts != part:
                continue
            col.run(h, core=True); ncore += 1
    nhalo = 0
    for profile, count, maxlen in halos:
        rnd = random.Random('%s:%s:%s:%s:%d' % (seed, prop, t, profile, part))
        for _ in range(max(1, count // parts)):
            col.run(genhist.random_history(rnd, t, maxlen, profile)); nhalo += 1
    lib.COVERAGE.stop(); lib.STEPS.stop()
    res = col.result({'lines': sorted(lib.COVERAGE.lines), 'raises': dict(lib.COVERAGE.raises)})
    res['counters']['core_histories'] = ncore
    res['counters']['halo_histories'] = nhalo
    return res


def replay_case(rp, prop, props=None):
    from .. import lib, hist
    c = rp['case']
    hist.CHILD_VALUE_NONE[0] = bool(c.get('child_value_none'))
    hist.CHILD_MOVED[0] = lib.TYPES[c['type']] if c.get('child_moved') else None
    vs, r = hist.decide(lib.TYPES[c['type']], c['type'], c['hist'], tuple(props or (prop,)))
    hist.CHILD_VALUE_NONE[0] = False
    hist.CHILD_MOVED[0] = None
    mine = [(p, k, d) for p, k, d in vs if p == prop]
    want = rp.get('sig', {}).get('kind')
    return {'violated': any(k == want for _, k, _ in mine) if want else bool(mine), 'violations': mine,
            'status': r.status, 'ordered': lib.names(r.e, True), 'insertion': lib.names(r.e, False)}


def run_repo_tests(prop):
    """the repository's own test suite under the monitors (pytest -p mxverif.pytest_monitor); report -> violations"""
    import json
    import os
    import subprocess
    import tempfile
    repo = os.environ.get('VERIF_REPO', '/repo')
    verif = os.path.dirname(os.path.dirname(os.path.dirname(os.path.abspath(__file__))))
    fd, rep = tempfile.mkstemp(prefix='mxverif-pytest-', suffix='.json')
    os.close(fd)
    env = dict(os.environ, MXVERIF_REPORT=rep, PYTHONPATH=os.pathsep.join([repo, verif]))
    try:
        p = subprocess.run(['/venv/bin/python', '-m', 'pytest', '-q', '-p', 'no:cacheprovider', '-p', 'mxverif.pytest_monitor',
                            '-x', '--timeout=600'], cwd=repo, env=env, capture_output=True, timeout=900)
        data = json.load(open(rep)) if os.path.getsize(rep) else {'stats': {}, 'witnesses': []}
    finally:
        os.unlink(rep)
    viol = []
    for w in data['witnesses']:
        if w['property'] != prop:
            continue
        test = w.get('test', '').split('::')[-1].split(' ')[0]
        viol.append({'sig': {'type': w['class'], 'kind': w['kind'], 'mech': 'repository-test', 'test': test},
                     'case': w, 'detail': w})
    st = data['stats']
    n = st.get('invariant_evaluations', 0) if prop == 'C06' else st.get('checked_nodes_validated', 0)
    return {'evaluations': n, 'distinct_nontrivial': n, 'violations': viol,
            'samples': [], 'counters': {'repo_tests_' + k: v for k, v in st.items()},
            'repo_tests_exit': data.get('exitstatus')}
