"""C14 — deep copies are faithful and independent.

Monitor: text equality of to_string() (or equal refusal) of original and copy, snapshots of the original around the
copy, lock-step walk for xsd_check, and cross-visibility of later mutations.
"""
import collections
import copy
import random
import xml.etree.ElementTree as ET

from .. import ref, docs

PROPERTY = 'C14'
LEVEL = 'exploration'
RULE = ('trees generated from the reference grammar (per element name and whole scores), built through the API or read by '
        'the parser, then perturbed after construction: attributes set by dot assignment, overwritten, removed with None, '
        'values changed, children added / removed, the tree or a subtree serialised in between, xsd_check switched off on random nodes. For each tree: deepcopy; copy and original must serialise '
        'to the same text (or both refuse with the same exception class); the original must be unchanged by the copy; '
        'xsd_check must be preserved node by node; then a mutation history (attribute / value / add / remove) on the copy '
        'must not show in the original and vice versa. non-trivial = tree with at least one post-construction '
        'perturbation or at least one child; distinct = distinct serialisation or perturbation list')
ASSUMPTIONS = ['trees the builder refuses are skipped (counted)', 'mutations are drawn from operations the API documents']
TIMEOUT = {'quick': 600, 'thorough': 3000}
NSHARDS = 16


def plan(tier, seed):
    return [{'slice': i, 'cost': 1} for i in range(NSHARDS)]


def nodes_of(e):
    out = [e]
    for c in e.get_children(False):
        out += nodes_of(c)
    return out


def perturb(e, rnd, lib):
    """post-construction changes; returns list of descriptions"""
    done = []
    nodes = nodes_of(e)
    for _ in range(rnd.randint(0, 4)):
        n = rnd.choice(nodes)
        t = lib.xsd_type_name(type(n))
        table = [a for a in ref.attr_table(t) if a[1] is not None and a[0] != 'name'] if t in ref.ALL else []
        kind = rnd.choice(['set', 'overwrite', 'remove', 'remove', 'value', 'uncheck', 'refused', 'refused', 'toggle-edit',
                           'serialise', 'serialise', 'tree-edit', 'tree-edit'])
        if kind == 'serialise':
            # the original has been serialised (whole tree or a subtree) before it is copied: the copy is rebuilt from scratch
            # and must still agree with it
            r = lib.call((e if rnd.random() < 0.6 else n).to_string)
            done.append('serialise %s (%s)' % (n.name if r[0] == 'ok' else n.name, 'ok' if r[0] == 'ok' else 'refused'))
            continue
        if kind == 'tree-edit':
            m = mutate_tree(e, rnd, lib)
            if m:
                done.append('edit ' + m)
            nodes = nodes_of(e)
            continue
        if kind in ('set', 'overwrite', 'remove') and table:
            an, at, req = rnd.choice(table)
            key = an.replace('-', '_')
            if kind == 'remove':
                present = [a for a in table if a[0] in n.attributes]
                if present and rnd.random() < 0.7:
                    an, at, req = rnd.choice(present)
                    key = an.replace('-', '_')
                if an not in n.attributes:
                    # set then remove, so that a removed attribute exists in the history
                    forms = [f for f in ref.valid_forms(at) if ref.valid(at, f)]
                    for pv in docs.py_value(at, forms[0]):
                        if lib.call(setattr, n, key, pv)[0] == 'ok':
                            break
                if lib.call(setattr, n, key, None)[0] == 'ok':
                    done.append('remove %s/@%s' % (n.name, an))
            else:
                forms = [f for f in ref.valid_forms(at) if ref.valid(at, f)]
                f = rnd.choice(forms)
                for pv in docs.py_value(at, f):
                    if lib.call(setattr, n, key, pv)[0] == 'ok':
                        done.append('%s %s/@%s=%r' % (kind, n.name, an, pv))
                        break
        elif kind == 'value':
            sb = ref.simple_base(t) if t in ref.ALL else t
            if sb:
                forms = [f for f in ref.valid_forms(sb) if ref.valid(sb, f)]
                f = rnd.choice(forms)
                for pv in docs.py_value(sb, f):
                    if lib.call(setattr, n, 'value_', pv)[0] == 'ok':
                        done.append('value %s=%r' % (n.name, pv))
                        break
        elif kind == 'uncheck':
            n.xsd_check = False
            done.append('uncheck %s' % n.name)
        elif kind == 'toggle-edit':
            # checking switched off, children edited, checking switched on again (the public xsd_check setter)
            if t in ref.DFAS and n.xsd_check:
                n.xsd_check = False
                kids = n.get_children(False)
                what = []
                if kids and rnd.random() < 0.6:
                    k = rnd.choice(kids)
                    if lib.call(n.remove, k)[0] == 'ok':
                        what.append('-' + k.name)
                s2 = rnd.choice(ref.DFAS[t].alphabet)
                if lib.call(n.add_child, lib.make(lib.child_cls(s2)))[0] == 'ok':
                    what.append('+' + s2)
                n.xsd_check = True
                done.append('toggle-edit %s %s' % (n.name, ' '.join(what)))
        elif kind == 'refused':
            # an assignment the library refuses (value or attribute): the tree stays reachable through the API
            if rnd.random() < 0.5:
                r = lib.call(setattr, n, 'value_', rnd.choice([object(), '@@bad@@', -987654321.5, []]))
                done.append('refused-value %s (%s)' % (n.name, 'raised' if r[0] == 'exc' else 'accepted'))
            elif table:
                an, at, req = rnd.choice(table)
                r = lib.call(setattr, n, an.replace('-', '_'), rnd.choice([object(), '@@bad@@', []]))
                done.append('refused-attribute %s/@%s (%s)' % (n.name, an, 'raised' if r[0] == 'exc' else 'accepted'))
    return done


def outcome(e, lib):
    r = lib.call(e.to_string)
    return ('ok', r[1]) if r[0] == 'ok' else ('exc', type(r[1]).__name__)


def mutate_tree(e, rnd, lib):
    """a visible mutation of a tree through the API; returns description or None"""
    nodes = nodes_of(e)
    for _ in range(6):
        n = rnd.choice(nodes)
        t = lib.xsd_type_name(type(n))
        kind = rnd.choice(['attr', 'attr-none', 'attr-none', 'value', 'remove-child', 'add-child'])
        if kind == 'attr-none':
            present = [a for a in n.attributes if a != 'name' and ':' not in a]
            if present:
                an = rnd.choice(sorted(present))
                req = t in ref.ALL and any(a[0] == an and a[2] for a in ref.attr_table(t))
                if lib.call(setattr, n, an.replace('-', '_'), None)[0] == 'ok':
                    return 'attr-none %s/@%s%s' % (n.name, an, ' (required)' if req else '')
        elif kind == 'attr' and t in ref.ALL:
            table = [a for a in ref.attr_table(t) if a[1] is not None and a[0] != 'name']
            if table:
                an, at, _ = rnd.choice(table)
                forms = [f for f in ref.valid_forms(at) if ref.valid(at, f)]
                for f in forms:
                    for pv in docs.py_value(at, f):
                        if n.attributes.get(an) != pv and lib.call(setattr, n, an.replace('-', '_'), pv)[0] == 'ok':
                            return 'attr %s/@%s=%r' % (n.name, an, pv)
        elif kind == 'value':
            sb = ref.simple_base(t) if t in ref.ALL else t
            if sb:
                for f in [f for f in ref.valid_forms(sb) if ref.valid(sb, f)]:
                    for pv in docs.py_value(sb, f):
                        if n.value_ != pv and str(n.value_) != str(pv) and lib.call(setattr, n, 'value_', pv)[0] == 'ok':
                            return 'value %s=%r' % (n.name, pv)
        elif kind == 'remove-child':
            kids = n.get_children(False)
            if kids:
                k = rnd.choice(kids)
                if lib.call(n.remove, k)[0] == 'ok':
                    return 'remove %s>%s' % (n.name, k.name)
        elif kind == 'add-child' and t in ref.DFAS:
            s = rnd.choice(ref.DFAS[t].alphabet)
            if lib.call(n.add_child, lib.make(lib.child_cls(s)))[0] == 'ok':
                return 'add %s>%s' % (n.name, s)
    return None


def check_tree(e, desc, rnd, lib, viol, c, case):
    def v(kind, detail=None, extra=None):
        sig = {'kind': kind, 'root_type': lib.xsd_type_name(type(e))}
        if extra:
            sig.update(extra)
        if any(x.startswith(('dot-none ', 'edit remove ')) or (x.startswith('remove ') and '/@' not in x) or
               (x.startswith('toggle-edit') and ' -' in x) for x in desc):
            sig['after_child_removal'] = True
        viol.append({'sig': sig, 'case': case, 'detail': dict(detail or {}, perturbations=desc)})

    before = outcome(e, lib)
    flags = [n.xsd_check for n in nodes_of(e)]
    r = lib.call(copy.deepcopy, e)
    if r[0] == 'exc':
        v('deepcopy-raises', {'msg': str(r[1])[:160]}, {'exc': type(r[1]).__name__})
        return
    cp = r[1]
    after = outcome(e, lib)
    if after != before:
        v('original-changed-by-copy', {'before': before[0], 'after': after[0]})
    oc = outcome(cp, lib)
    if oc != before:
        if oc[0] == 'ok' and before[0] == 'ok':
            d = docs.infoset_diff(ET.fromstring(before[1]), ET.fromstring(oc[1]), limit=3)
            what = d[0][1] if d else 'formatting'
            v('copy-text-differs', {'diff': [list(map(str, x)) for x in d]}, {'what': what})
        else:
            v('copy-verdict-differs', {'original': before[0] if before[0] == 'ok' else before[1],
                                       'copy': oc[0] if oc[0] == 'ok' else oc[1]},
              {'original': 'ok' if before[0] == 'ok' else before[1], 'copy': 'ok' if oc[0] == 'ok' else oc[1]})
    # lock-step walk: the copy is built from the original's get_children() order
    stack = [(e, cp)]
    while stack:
        a, b = stack.pop()
        if a.xsd_check != b.xsd_check:
            v('xsd-check-not-preserved', {'node': a.name})
            break
        ka, kb = a.get_children(), b.get_children(False)
        if [k.name for k in ka] == [k.name for k in kb]:
            stack += list(zip(ka, kb))
    if set(map(id, nodes_of(cp))) & set(map(id, nodes_of(e))):
        v('copy-shares-nodes')
    # independence: mutate the copy, the original must not move; then the other way round
    o0 = outcome(e, lib)
    m = mutate_tree(cp, rnd, lib)
    if m:
        c['mutations_of_copy'] += 1
        if outcome(e, lib) != o0:
            v('mutation-of-copy-visible-in-original', {'mutation': m})
    c0 = outcome(cp, lib)
    m = mutate_tree(e, rnd, lib)
    if m:
        c['mutations_of_original'] += 1
        if outcome(cp, lib) != c0:
            v('mutation-of-original-visible-in-copy', {'mutation': m})


def run_shard(shard, tier, seed):
    from .. import lib
    from musicxml.parser.parser import parse_musicxml
    viol = []
    c = collections.Counter()
    evals = 0
    nontriv = 0
    samples = []
    tmp = docs.TempFile('mxverif-c14-')
    try:
        rnd = random.Random('%s:C14:%d' % (seed, shard['slice']))
        names = [n for i, n in enumerate(ref.ELEMENT_NAMES) if i % NSHARDS == shard['slice']]
        per = 2 if tier == 'quick' else 14
        trees = []
        for n in names:
            for k in range(per):
                trees.append((n, (ref.HEIGHT[n] or 0) + rnd.choice([1, 2, 3])))
        for k in range(2 if tier == 'quick' else 16):
            trees.append(('score-partwise', rnd.choice([6, 7])))
        for n, depth in trees:
            el = ref.gen_el(n, rnd, depth, {'pattr': rnd.choice([0.2, 0.6]), 'maxkids': 4,
                                           'skip_attrs': ('xml:lang', 'xml:space', 'name'),
                                           'skip_elements': ('link', 'opus', 'part-link', 'miscellaneous-field')})
            route = rnd.choice(['api', 'api-kw', 'api-kw', 'parser'])
            try:
                if route.startswith('api'):
                    e = docs.build_api(el, lib, check=True, kw_attrs=(route == 'api-kw'))
                else:
                    tmp.write(docs.to_text(el))
                    r = lib.call(parse_musicxml, tmp.name)
                    if r[0] == 'exc':
                        c['parser_refused'] += 1
                        continue
                    e = r[1]
            except docs.BuildRefused:
                c['builder_refused'] += 1
                continue
            desc = perturb(e, rnd, lib)
            evals += 1
            if desc or len(el):
                nontriv += 1
            c['trees_' + route] += 1
            c['perturbations'] += len(desc)
            case = {'text': docs.to_text(el), 'route': route, 'perturbations': desc, 'seed_state': None}
            check_tree(e, desc, rnd, lib, viol, c, case)
            if len(samples) < 2 and desc:
                samples.append({'root': n, 'route': route, 'perturbations': desc})
            # the same tree once more, systematically: serialised, then a child removed somewhere, then copied
            if route.startswith('api') and len(el):
                try:
                    e2 = docs.build_api(el, lib, check=True, kw_attrs=(route == 'api-kw'))
                except docs.BuildRefused:
                    continue
                if lib.call(e2.to_string)[0] == 'exc':
                    continue
                parents = [x for x in nodes_of(e2) if x.get_children(False)]
                for _try in range(3):
                    pnode = rnd.choice(parents)
                    kid = rnd.choice(pnode.get_children(False))
                    how = rnd.choice(['remove', 'dot-none'])
                    r = lib.call(pnode.remove, kid) if how == 'remove' else \
                        lib.call(setattr, pnode, 'xml_' + kid.name.replace('-', '_'), None)
                    if r[0] == 'ok':
                        desc2 = ['serialise %s (ok)' % e2.name, '%s %s>%s' % (how, pnode.name, kid.name)]
                        evals += 1
                        nontriv += 1
                        c['serialised_then_child_removed'] += 1
                        check_tree(e2, desc2, rnd, lib, viol, c, {'text': docs.to_text(el), 'route': route, 'perturbations': desc2})
                        break
    finally:
        tmp.close()
    return {'evaluations': evals, 'distinct_nontrivial': nontriv, 'violations': viol, 'samples': samples,
            'counters': dict(c, stdio_events=len(lib.STDIO_EVENTS))}


def replay_case(rp):
    from .. import lib
    case = rp['case']
    el = ET.fromstring(case['text'].split('?>', 1)[1])
    viol = []
    kinds = set()
    for s in range(8):
        rnd = random.Random(s)
        e = docs.build_api(el, lib, check=True, kw_attrs=(rp['case'].get('route') == 'api-kw'))
        desc = perturb(e, rnd, lib)
        check_tree(e, desc, rnd, lib, viol, collections.Counter(), case)
    kinds = {v['sig']['kind'] for v in viol}
    return {'violated': rp['sig']['kind'] in kinds, 'kinds_seen': sorted(kinds)}
