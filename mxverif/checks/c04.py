"""C04 — the attribute interface of each element is exactly the schema's.

Monitor: API recorder around constructor keywords, dot assignment, parse_musicxml, `attributes`, dot read,
to_string.  Oracle: reference attribute tables + reference lexical validator; snapshot before/after for
"nothing is stored"; M-out for the serialised attribute set.
"""
import collections
import os
import random
import tempfile
import xml.etree.ElementTree as ET

from .. import ref

PROPERTY = 'C04'
LEVEL = 'exploration'
RULE = ('every element class x every attribute the reference table declares for its type (2096 pairs) x routes '
        '{constructor keyword, dot assignment, parse_musicxml of a one-element document} x {a valid value, an invalid '
        'value}: acceptance, stored key, read-back, serialised name/value, removal by None; every class x a fixed list '
        'of undeclared names (incl. names declared elsewhere and hyphen/underscore variants); required attributes '
        'withheld one at a time from an otherwise complete element; seeded set/overwrite/remove sequences against a '
        'dictionary model. thorough adds every generated value form and every class for the sequences. '
        'non-trivial = a declared (class, attribute, route) combination or a sequence step; distinct by construction')
ASSUMPTIONS = ['reference attribute tables and lexical validator built from /verif/ref',
               'a value counts as valid when at least one natural Python spelling of a valid lexical form (str, int, float) '
               'is accepted; it counts as invalid when no spelling of an invalid lexical form is accepted',
               'serialised attributes are inspected on an unchecked twin where the element itself could not be completed']
TIMEOUT = {'quick': 600, 'thorough': 2400}
UNDECLARED = ['foo', 'bar_baz', 'colour', 'xml_id', 'font_familyy', 'Type', 'numbr', 'default_z', 'placement_', 'href',
              'lang_', 'idd']
NSHARDS = 16
ALL_NAMES = sorted({a[0].split(':')[-1] for t in ref.ALL for a in ref.attr_table(t)})


def plan(tier, seed):
    # the two whole-list shards visit every class in one process, in opposite orders (validation state cached by
    # whichever type is used first shows up in one of them); they probe enumerated attributes with near-miss literals
    return [{'slice': i, 'cost': 1} for i in range(NSHARDS)] + [{'slice': 'enum-sorted', 'cost': 1, 'fresh_process': True},
                                                              {'slice': 'enum-reversed', 'cost': 1, 'fresh_process': True}]


def pyname(an):
    return an.split(':')[-1].replace('-', '_')


def vclass(lex):
    """class of a lexical form: what a Python float() round trip does to it (C05's float battery lives in C05)"""
    if lex is None:
        return None
    v = ref.collapse(lex)
    if ref.DEC.fullmatch(v):
        try:
            if not ref.DEC.fullmatch(str(float(v))) or (ref.INT.fullmatch(v) and len(v.lstrip('+-')) > 15):
                return 'decimal-beyond-float-repr'
        except (ValueError, OverflowError):
            return 'decimal-beyond-float-repr'
        return 'plain'
    try:
        float(v)
        return 'python-float-syntax'
    except ValueError:
        return 'plain'


def _sig(kind, t, attr, route=None, exc=None, lex=None):
    s = {'kind': kind, 'type': t, 'attr': attr}
    if lex is not None and vclass(lex) != 'plain':
        s['vclass'] = vclass(lex)
    if route:
        s['route'] = route
    if exc:
        s['exc'] = exc
    return s


class Ctx:
    def __init__(self):
        self.viol = []
        self.evals = 0
        self.nontriv = 0
        self.samples = []
        self.c = collections.Counter()
        self.tmp = tempfile.NamedTemporaryFile(prefix='mxverif-c04-', suffix='.xml', delete=False)
        self.tmp.close()

    def v(self, sig, case, detail=None):
        self.viol.append({'sig': sig, 'case': case, 'detail': detail or {}})


def valid_invalid_forms(an, at, tier):
    """(valid lexical forms, invalid lexical forms) for an attribute, certified by the reference validator"""
    if at is not None:
        good = [f for f in ref.valid_forms(at) if ref.valid(at, f)]
        bad = [f for f in ref.invalid_forms(at) if not ref.valid(at, f)]
    elif an == 'xml:lang':
        good, bad = ['en', 'de-CH'], ['e', '12']
    elif an == 'xml:space':
        good, bad = ['preserve', 'default'], ['keep']
    else:
        t, enum = ref.XLINK_ATTRS[an]
        good = list(enum) if enum else ['http://x/y']
        bad = ['@@nope@@'] if enum else []
    # prefer forms without surrounding whitespace / odd spellings for the quick tier
    plain = [f for f in good if f == f.strip() and f != '' and vclass(f) == 'plain'] or good
    if tier == 'quick':
        badp = [f for f in bad if vclass(f) == 'plain']
        return plain[:1] + ([plain[-1]] if len(plain) > 1 else []), badp[:2] + [f for f in bad if vclass(f) != 'plain'][:1]
    return good[:10], bad[:6]


def build(lib, cls, kw=None, check=False):
    v = lib.default_value(cls)
    kw = kw or {}
    if v is None:
        return cls(xsd_check=check, **kw)
    return cls(v, xsd_check=check, **kw)


def out_attrib(text):
    return {ref.qname_to_prefixed(k): v for k, v in ET.fromstring(text).attrib.items()}


def try_routes(ctx, lib, cls, t, an, at, lex, expect_valid):
    """offer one lexical form through the three routes; returns per-route acceptance"""
    from musicxml.parser.parser import parse_musicxml
    key = pyname(an)
    res = {}
    cands = lib.py_candidates(lex)
    for route in ('ctor', 'dot', 'parser'):
        ctx.evals += 1
        ctx.nontriv += 1
        accepted = None
        last_exc = None
        stored_elem = None
        if route == 'parser':
            el = ET.Element(ET.fromstring('<%s/>' % ref_name(lib, cls)).tag)
            v = lib.default_value(cls)
            if v is not None:
                el.text = str(v)
            el.set(ref.prefixed_to_qname(an), lex)
            ET.ElementTree(el).write(ctx.tmp.name, encoding='UTF-8', xml_declaration=True)
            r = lib.call(parse_musicxml, ctx.tmp.name)
            if r[0] == 'ok':
                accepted = True; stored_elem = r[1]; used = lex
            else:
                accepted = False; last_exc = r[1]
        else:
            for pv in cands:
                if route == 'ctor':
                    r = lib.call(build, lib, cls, {key: pv})
                    e = r[1] if r[0] == 'ok' else None
                else:
                    e = build(lib, cls)
                    before = dict(e.attributes)
                    r = lib.call(setattr, e, key, pv)
                    if r[0] == 'exc' and dict(e.attributes) != before:
                        ctx.v(_sig('stored-after-reject', t, an, route), {'class': cls.__name__, 'attr': an, 'value': repr(pv)},
                              {'attributes': dict(e.attributes)})
                if r[0] == 'ok':
                    accepted = True; stored_elem = e; used = pv
                    break
                last_exc = r[1]
                c = lib.classify_exception(r[1], dot_name=True)
                if c != 'documented':
                    ctx.v(_sig('internal-error', t, an, route, type(r[1]).__name__),
                          {'class': cls.__name__, 'attr': an, 'value': repr(pv), 'route': route},
                          {'site': lib.raise_site(r[1]), 'msg': str(r[1])[:120]})
            if accepted is None:
                accepted = False
        res[route] = accepted
        if route == 'parser' and last_exc is not None and lib.classify_exception(last_exc, dot_name=True) != 'documented':
            ctx.v(_sig('internal-error', t, an, route, type(last_exc).__name__),
                  {'class': cls.__name__, 'attr': an, 'value': lex, 'route': route},
                  {'site': lib.raise_site(last_exc), 'msg': str(last_exc)[:120]})
        if expect_valid and not accepted:
            ctx.v(_sig('valid-rejected', t, an, route, type(last_exc).__name__ if last_exc else None, lex),
                  {'class': cls.__name__, 'attr': an, 'value': lex, 'route': route}, {'msg': str(last_exc)[:120]})
        if not expect_valid and accepted:
            ctx.v(_sig('invalid-accepted', t, an, route, None, lex), {'class': cls.__name__, 'attr': an, 'value': lex, 'route': route})
        if accepted and expect_valid:
            e = stored_elem
            local = an.split(':')[-1]
            stored = dict(e.attributes)
            if set(stored) != {an}:
                kind = 'stored-under-unprefixed-name' if set(stored) == {local} else 'stored-name'
                ctx.v(_sig(kind, t, an, route), {'class': cls.__name__, 'attr': an, 'value': lex, 'route': route},
                      {'stored': list(stored)})
            rb = lib.call(getattr, e, key)
            ctx.evals += 1
            sval = next(iter(stored.values())) if len(stored) == 1 else None
            if rb[0] == 'exc' or rb[1] != sval:
                ctx.v(_sig('readback', t, an, route), {'class': cls.__name__, 'attr': an, 'value': lex, 'route': route},
                      {'got': repr(rb[1])[:80]})
            e.xsd_check = False
            s = lib.call(e.to_string)
            ctx.evals += 1
            if s[0] == 'ok':
                oa = out_attrib(s[1])
                if set(oa) != {an}:
                    kind = 'serialised-under-unprefixed-name' if set(oa) == {local} else 'serialised-set-differs'
                    ctx.v(_sig(kind, t, an, route), {'class': cls.__name__, 'attr': an, 'value': lex, 'route': route},
                          {'serialised': oa})
                else:
                    if not ref.attr_valid(an, at, oa[an]):
                        ctx.v(_sig('serialised-value-invalid', t, an, route, None, lex),
                              {'class': cls.__name__, 'attr': an, 'value': lex, 'route': route}, {'text': oa[an]})
            else:
                ctx.v(_sig('unchecked-serialisation-raises', t, an, route, type(s[1]).__name__),
                      {'class': cls.__name__, 'attr': an, 'value': lex, 'route': route})
            # removal by None
            r = lib.call(setattr, e, key, None)
            ctx.evals += 1
            if r[0] == 'exc' or e.attributes:
                ctx.v(_sig('none-does-not-remove', t, an, route), {'class': cls.__name__, 'attr': an, 'value': lex,
                                                                 'route': route}, {'left': dict(e.attributes)})
            if len(ctx.samples) < 4 and route == 'dot':
                ctx.samples.append({'class': cls.__name__, 'attr': an, 'value': lex, 'route': route, 'accepted': True})
    return res


_NAME_CACHE = {}


def ref_name(lib, cls):
    if cls not in _NAME_CACHE:
        from musicxml.util.core import convert_to_xml_class_name
        _NAME_CACHE[cls] = next(n for n in ref.ELEMENT_NAMES if convert_to_xml_class_name(n) == cls.__name__)
    return _NAME_CACHE[cls]


def complete_element(lib, cls, t, omit=None):
    """a checked element with its shortest valid child word (unchecked children) and all required attributes but `omit`"""
    kw = {}
    for an, lex in lib.required_attrs(t).items():
        if an == omit:
            continue
        for pv in lib.py_candidates(lex)[::-1]:
            r = lib.call(build, lib, cls, {pyname(an): pv})
            if r[0] == 'ok':
                kw[pyname(an)] = pv
                break
    e = build(lib, cls, kw, check=True)
    if t in ref.DFAS:
        for s in ref.shortest_word(t):
            e.add_child(lib.make(lib.child_cls(s)))
    return e


def run_enum_order(shard, tier, seed):
    from .. import lib
    ctx = Ctx()
    classes = sorted(lib.CLASSES.items())
    if shard['slice'] == 'enum-reversed':
        classes.reverse()
    for cn, cls in classes:
        t = lib.xsd_type_name(cls)
        if t not in ref.ALL:
            continue
        for an, at, req in ref.attr_table(t):
            if at is None or not ref.enumeration(at) or an == 'name':
                continue
            good = [f for f in ref.enumeration(at) if ref.valid(at, f)][:2]
            bad = [f for f in ref.near_miss_literals(at, 8) if not ref.valid(at, f)]
            r = lib.call(build, lib, cls)
            if r[0] == 'exc':
                continue
            e = r[1]
            for lex in good:
                ctx.evals += 1
                ctx.nontriv += 1
                if lib.call(setattr, e, pyname(an), lex)[0] == 'exc':
                    ctx.v(_sig('valid-rejected', t, an, 'dot-order-' + shard['slice']), {'class': cn, 'attr': an, 'value': lex})
            for lex in bad:
                ctx.evals += 1
                ctx.nontriv += 1
                if lib.call(setattr, e, pyname(an), lex)[0] == 'ok':
                    ctx.v(_sig('invalid-accepted', t, an, 'dot-order-' + shard['slice']), {'class': cn, 'attr': an, 'value': lex})
    try:
        os.unlink(ctx.tmp.name)
    except OSError:
        pass
    return {'evaluations': ctx.evals, 'distinct_nontrivial': ctx.nontriv, 'violations': ctx.viol,
            'samples': [{'order': shard['slice']}], 'counters': {'enum_order_probes': ctx.evals}}


def run_shard(shard, tier, seed):
    if isinstance(shard['slice'], str):
        return run_enum_order(shard, tier, seed)
    from .. import lib
    ctx = Ctx()
    classes = sorted(lib.CLASSES.items())
    mine = [c for i, c in enumerate(classes) if i % NSHARDS == shard['slice']]
    rnd = random.Random('%s:C04:%d' % (seed, shard['slice']))
    try:
        for cn, cls in mine:
            t = lib.xsd_type_name(cls)
            table = ref.attr_table(t) if t in ref.ALL else ()
            # ---- declared attributes through the three routes
            for an, at, req in table:
                good, bad = valid_invalid_forms(an, at, tier)
                for lex in good:
                    try_routes(ctx, lib, cls, t, an, at, lex, True)
                for lex in bad:
                    try_routes(ctx, lib, cls, t, an, at, lex, False)
                ctx.c['declared_pairs'] += 1
            # ---- undeclared names
            declared = {pyname(a[0]) for a in table}
            for key in UNDECLARED + (['tenths_xyz'] if tier == 'thorough' else []):
                if key in declared:
                    continue
                for route in ('ctor', 'dot'):
                    ctx.evals += 1
                    if route == 'ctor':
                        r = lib.call(build, lib, cls, {key: 'x'})
                        e = r[1] if r[0] == 'ok' else None
                    else:
                        e = build(lib, cls)
                        r = lib.call(setattr, e, key, 'x')
                    if r[0] == 'ok':
                        ctx.v(_sig('undeclared-accepted', t, key, route), {'class': cn, 'attr': key, 'route': route})
                    else:
                        c = lib.classify_exception(r[1], dot_name=True)
                        if c != 'documented':
                            ctx.v(_sig('internal-error', t, key, route, type(r[1]).__name__),
                                  {'class': cn, 'attr': key, 'route': route}, {'site': lib.raise_site(r[1])})
                        if e is not None and e.attributes:
                            ctx.v(_sig('stored-after-reject', t, key, route), {'class': cn, 'attr': key, 'route': route})
                ctx.c['undeclared_probes'] += 1
            # every attribute name the schema declares anywhere: an undeclared one must be refused as a name
            if t in ref.ALL:
                local_declared = {a[0].split(':')[-1] for a in table}
                e = lib.call(build, lib, cls)
                if e[0] == 'ok':
                    for an in ALL_NAMES:
                        if an in local_declared or an == 'name':
                            continue
                        ctx.evals += 1
                        rr = lib.call(setattr, e[1], an.replace('-', '_'), '@@probe@@')
                        if rr[0] == 'ok' or not isinstance(rr[1], AttributeError):
                            ctx.v(_sig('undeclared-accepted', t, an, 'dot-name-matrix'), {'class': cn, 'attr': an},
                                  {'got': 'accepted' if rr[0] == 'ok' else type(rr[1]).__name__})
                            if rr[0] == 'ok':
                                lib.call(setattr, e[1], an.replace('-', '_'), None)
                    ctx.c['name_matrix_rows'] += 1
            # a non-string, non-number object
            if table:
                an = table[0][0]
                ctx.evals += 1
                e = build(lib, cls)
                r = lib.call(setattr, e, pyname(an), object())
                if r[0] == 'ok':
                    ctx.v(_sig('invalid-accepted', t, an, 'dot-object'), {'class': cn, 'attr': an, 'value': 'object()'})
            # ---- required attributes enforced by to_string
            reqs = [a for a in table if a[2]]
            if t in ref.ALL:
                ctx.evals += 1
                r = lib.call(complete_element, lib, cls, t)
                if r[0] == 'ok':
                    full = lib.verdict(r[1])
                    if full[0] != 'ok':
                        if reqs and any(a[1] is None for a in reqs):
                            ctx.c['required_ref_attribute_unsatisfiable'] += 1
                        ctx.c['complete_element_not_serialisable'] += 1
                        if full[0] == 'attr' and not any(a[1] is None for a in reqs):
                            ctx.v(_sig('required-over-enforced', t, '*'), {'class': cn}, {'verdict': list(full)})
                    else:
                        oa = out_attrib(full[1])
                        if set(oa) != {a[0] for a in reqs if a[1] is not None}:
                            ctx.v(_sig('serialised-set-differs', t, '*', 'complete'), {'class': cn}, {'serialised': oa})
                        for an, at, _ in reqs:
                            if at is None:
                                ctx.v(_sig('required-not-enforced', t, an), {'class': cn, 'attr': an})
                                continue
                            ctx.evals += 1
                            ctx.nontriv += 1
                            e2 = complete_element(lib, cls, t, omit=an)
                            v2 = lib.verdict(e2)
                            if v2[0] != 'attr':
                                ctx.v(_sig('required-not-enforced', t, an), {'class': cn, 'attr': an}, {'verdict': v2[0]})
                            ctx.c['required_withheld'] += 1
                            # a required attribute that IS set - to a falsy but valid value ('' for token / anyURI types, 0 where
                            # the type admits it) - is set: the element serialises and shows it
                            for lex in ('', '0'):
                                if not ref.valid(at, lex):
                                    continue
                                for pv in lib.py_candidates(lex)[::-1] if lex else ['']:
                                    e3 = complete_element(lib, cls, t, omit=an)
                                    if lib.call(setattr, e3, pyname(an), pv)[0] == 'exc':
                                        continue
                                    ctx.evals += 1
                                    ctx.c['required_set_to_falsy_value'] += 1
                                    v3 = lib.verdict(e3)
                                    if v3[0] != 'ok':
                                        ctx.v(_sig('required-over-enforced', t, an, 'falsy-value'), {'class': cn, 'attr': an, 'value': repr(pv)},
                                              {'verdict': list(v3)[:2]})
                                    elif out_attrib(v3[1]).get(an) != str(pv):
                                        ctx.v(_sig('serialised-set-differs', t, an, 'falsy-value'), {'class': cn, 'attr': an, 'value': repr(pv)})
                                    break
                else:
                    ctx.c['complete_element_build_failed'] += 1
            # ---- set / overwrite / remove sequences against a dictionary model
            usable = [(an, at) for an, at, _ in table if at is not None]
            nseq = (3 if tier == 'quick' else 12) if usable else 0
            for _ in range(nseq):
                e = build(lib, cls)
                model = {}
                steps = []
                for _step in range(rnd.randint(2, 4 if tier == 'quick' else 7)):
                    an, at = rnd.choice(usable)
                    good, bad = valid_invalid_forms(an, at, 'thorough')
                    mode = rnd.choice(['good', 'good', 'bad', 'none'])
                    ctx.evals += 1
                    ctx.nontriv += 1
                    if mode == 'none':
                        r = lib.call(setattr, e, pyname(an), None)
                        if r[0] == 'ok':
                            model.pop(an, None)
                        steps.append([an, None])
                    else:
                        forms = good if mode == 'good' else bad
                        if not forms:
                            continue
                        lex = rnd.choice(forms)
                        done = False
                        for pv in lib.py_candidates(lex)[::-1]:
                            r = lib.call(setattr, e, pyname(an), pv)
                            if r[0] == 'ok':
                                model[an] = pv; done = True
                                break
                        steps.append([an, lex, done])
                    # acceptance must not depend on the value currently stored: offer the numerically equal value of the
                    # other Python number type (1 -> 1.0, 2.0 -> 2) and compare with a fresh element
                    cur = model.get(an)
                    if isinstance(cur, (int, float)) and not isinstance(cur, bool) and cur == cur and abs(cur) < 1e15 \
                            and float(cur) == int(cur):
                        twin_val = float(cur) if isinstance(cur, int) else int(cur)
                        fresh = build(lib, cls)
                        rf = lib.call(setattr, fresh, pyname(an), twin_val)
                        rh = lib.call(setattr, e, pyname(an), twin_val)
                        ctx.evals += 1
                        if (rf[0] == 'ok') != (rh[0] == 'ok'):
                            ctx.v(_sig('acceptance-depends-on-stored-value', t, an, 'dot'),
                                  {'class': cn, 'steps': steps, 'stored': repr(cur), 'offered': repr(twin_val)},
                                  {'fresh': rf[0], 'with_history': rh[0]})
                        # ... nor on what was accepted anywhere else in the process: the reference decides
                        for who, rr in (('with_history', rh), ('fresh', rf)):
                            if rr[0] == 'ok' and not ref.valid(at, str(twin_val)):
                                ctx.v(_sig('invalid-accepted', t, an, 'dot-equal-value-of-other-kind'),
                                      {'class': cn, 'steps': steps, 'stored': repr(cur), 'offered': repr(twin_val)},
                                      {'element': who})
                                break
                        if rh[0] == 'ok':
                            model[an] = twin_val
                        ctx.c['equal_value_other_type_probes'] += 1
                    if dict(e.attributes) != model:
                        ctx.v(_sig('sequence-model-differs', t, an, 'dot'), {'class': cn, 'steps': steps},
                              {'attributes': {k: repr(v) for k, v in e.attributes.items()},
                               'model': {k: repr(v) for k, v in model.items()}})
                        break
                    s = lib.call(e.to_string)
                    if s[0] == 'ok' and set(out_attrib(s[1])) != set(model):
                        ctx.v(_sig('sequence-serialised-differs', t, an, 'dot'), {'class': cn, 'steps': steps})
                        break
                ctx.c['sequences'] += 1
    finally:
        try:
            os.unlink(ctx.tmp.name)
        except OSError:
            pass
    return {'evaluations': ctx.evals, 'distinct_nontrivial': ctx.nontriv, 'violations': ctx.viol,
            'samples': ctx.samples, 'counters': dict(ctx.c, stdio_events=len(lib.STDIO_EVENTS)),
            'exhaustive': tier == 'thorough'}


def replay_case(rp):
    from .. import lib
    c = rp['case']
    cls = lib.CLASSES[c['class']]
    t = lib.xsd_type_name(cls)
    ctx = Ctx()
    if 'attr' in c and 'value' in c and c['attr'] in {a[0] for a in ref.attr_table(t)}:
        an, at, _ = next(a for a in ref.attr_table(t) if a[0] == c['attr'])
        try_routes(ctx, lib, cls, t, an, at, c['value'], ref.attr_valid(an, at, c['value']))
    else:
        res = run_shard({'slice': sorted(lib.CLASSES).index(c['class']) % NSHARDS}, 'quick', 0)
        ctx.viol = [v for v in res['violations'] if v['case'].get('class') == c['class']]
    mine = [v for v in ctx.viol if v['sig']['kind'] == rp['sig']['kind']]
    return {'violated': bool(mine), 'violations': mine[:5]}
