"""C15 — shortcut syntax is equivalent to the explicit API.

Monitor: M-twin across the two API surfaces: the same script is run once through xml_* / dot / keyword shortcuts and
once through add_child / replace_child / remove / value_ (the translation the README documents); observables and
exception classes are compared after every step.
"""
import collections
import random
import xml.etree.ElementTree as ET

from .. import ref

PROPERTY = 'C15'
LEVEL = 'exploration'
RULE = ('core: every element-content class x every schema child: [read unset, set by element, read, set by value, read, '
        're-assign an element, set None, read] on both surfaces, compared step by step (exception class, both child views '
        'by name, child values, coarse serialisation verdict / text); every complex-typed class x every declared attribute: '
        'constructor keyword vs dot assignment (same stored dictionary, same text, same exception class for an invalid '
        'value), dot read of set / unset / undeclared names, and dot RE-assignment over a held value (the equal value of the other '
        'number kind, and the same value again) against a constructor keyword on a fresh element. halo: seeded mixed sequences (<=10 shortcut operations over '
        'the child alphabet) replayed on both surfaces; the core scripts also on an unchecked parent (the children either surface creates must carry the same checking flag). non-trivial = step that changed or read a child/attribute; '
        'distinct by construction (class, child/attribute, step) or distinct sequence')
ASSUMPTIONS = ['the explicit translation of e.xml_x = v is the one the README documents: replace_child / add_child for an '
               'element, value_ assignment or add_child(X(v)) for a value, remove for None (first child of that class in '
               'insertion order)', 'children are minimal unchecked instances']
TIMEOUT = {'quick': 600, 'thorough': 2400}
NSHARDS = 16
BAD_VALUE = ('@@not-a-valid-value@@', 3.25)      # neither a token of any enumeration nor a number / plain string


def plan(tier, seed):
    return [{'slice': i, 'cost': 1} for i in range(NSHARDS)]


def first_of(e, ccls):
    for c in e.get_children(False):
        if c.__class__ is ccls:
            return c
    return None


def apply(surface, e, op, lib, fresh):
    """op = (kind, child name); fresh(name) -> new child element. Returns ('ok', value) | ('exc', class name)"""
    kind, s = op
    ccls = lib.child_cls(s)
    attr = 'xml_' + s.replace('-', '_')
    if kind == 'read':
        if surface == 'shortcut':
            r = lib.call(getattr, e, attr)
        else:
            r = ('ok', first_of(e, ccls))
        if r[0] == 'ok':
            v = r[1]
            return ('ok', None if v is None else (v.name, str(v.value_)))
        return ('exc', type(r[1]).__name__)
    if kind == 'el':
        new = fresh(s)
        if surface == 'shortcut':
            r = lib.call(setattr, e, attr, new)
        else:
            found = first_of(e, ccls)
            r = lib.call(e.replace_child, found, new) if found is not None else lib.call(e.add_child, new)
    elif kind == 'val':
        val = lib.default_value(ccls)
        if surface == 'shortcut':
            r = lib.call(setattr, e, attr, val)
        else:
            found = first_of(e, ccls)
            if found is not None:
                r = lib.call(setattr, found, 'value_', val)
            else:
                c = lib.call(ccls, val)
                r = lib.call(e.add_child, c[1]) if c[0] == 'ok' else c
    elif kind == 'badval':
        # a plain value the child's type must refuse, on both surfaces
        val = BAD_VALUE
        if surface == 'shortcut':
            r = lib.call(setattr, e, attr, val)
        else:
            found = first_of(e, ccls)
            if found is not None:
                r = lib.call(setattr, found, 'value_', val)
            else:
                c = lib.call(ccls, val)
                r = lib.call(e.add_child, c[1]) if c[0] == 'ok' else c
    elif kind == 'none':
        if surface == 'shortcut':
            r = lib.call(setattr, e, attr, None)
        else:
            found = first_of(e, ccls)
            r = lib.call(e.remove, found) if found is not None else ('ok', None)
    else:
        raise ValueError(kind)
    return ('ok', None) if r[0] == 'ok' else ('exc', type(r[1]).__name__)


def observe(e, lib):
    def vals(cs):
        # name, value and the child's own checking flag (a child the shortcut creates is an ordinary, checked element)
        return [(c.name, str(c.value_), bool(c.xsd_check)) for c in cs]
    o = {'ordered': vals(e.get_children(True)), 'insertion': vals(e.get_children(False))}
    return o


def final(e, lib):
    v = lib.verdict(e)
    return v[0] if v[0] != 'ok' else v[1]


def run_script(cls, script, lib, check=True):
    """run on both surfaces; returns (first differing step, what) or None"""
    out = {}
    for surface in ('shortcut', 'explicit'):
        e = lib.make(cls, check=check, with_required=True)
        trace = []
        for op in script:
            r = apply(surface, e, op, lib, lambda s: lib.make(lib.child_cls(s)))
            trace.append((r, observe(e, lib)))
        out[surface] = (trace, final(e, lib), e)
    ta, fa, ea = out['shortcut']
    tb, fb, eb = out['explicit']
    for i, (x, y) in enumerate(zip(ta, tb)):
        if x[0] != y[0]:
            return (i, 'result', x[0], y[0])
        if x[1] != y[1]:
            return (i, 'children', x[1], y[1])
    if fa != fb:
        return (len(script), 'serialisation', str(fa)[:80], str(fb)[:80])
    # e.xml_x is the child that serialisation shows
    for op in script:
        if op[0] == 'read':
            continue
    return None


def run_shard(shard, tier, seed):
    from .. import lib
    viol = []
    c = collections.Counter()
    evals = 0
    nontriv = 0
    samples = []
    rnd = random.Random('%s:C15:%d' % (seed, shard['slice']))
    classes = sorted(lib.CLASSES.items())
    mine = [x for i, x in enumerate(classes) if i % NSHARDS == shard['slice']]

    def v(kind, cn, t, detail, extra=None):
        sig = {'kind': kind, 'type': t}
        if extra:
            sig.update(extra)
        viol.append({'sig': sig, 'case': dict(detail, cls=cn), 'detail': detail})

    for cn, cls in mine:
        t = lib.xsd_type_name(cls)
        if t in ref.DFAS:
            alpha = ref.DFAS[t].alphabet
            # ---- child half, deterministic core
            for s in alpha:
                ccls = lib.child_cls(s)
                has_val = lib.default_value(ccls) is not None and not lib.has_required_attrs(ccls)
                script = [('read', s), ('el', s), ('read', s)] + ([('val', s), ('read', s), ('badval', s), ('read', s)]
                                                                 if has_val else []) + \
                         [('el', s), ('read', s), ('none', s), ('read', s)] + \
                         ([('badval', s), ('read', s), ('val', s), ('read', s)] if has_val else [])   # a value CREATES the child here
                evals += 1
                nontriv += 1
                d = run_script(cls, script, lib)
                c['child_scripts'] += 1
                if d:
                    step = script[d[0]] if d[0] < len(script) else ('final', s)
                    v('surfaces-differ:' + d[1], cn, t, {'script': script, 'step': d[0], 'shortcut': str(d[2])[:200],
                                                         'explicit': str(d[3])[:200]},
                      {'op': step[0], 'layer': 'core'})
                else:
                    # the same script on an UNCHECKED parent (nothing is refused there; the two surfaces must still agree,
                    # including the checking flag of the children they create)
                    d = run_script(cls, script, lib, check=False)
                    c['child_scripts_unchecked_parent'] += 1
                    if d:
                        step = script[d[0]] if d[0] < len(script) else ('final', s)
                        v('surfaces-differ:' + d[1], cn, t, {'script': script, 'step': d[0], 'shortcut': str(d[2])[:200],
                                                             'explicit': str(d[3])[:200], 'parent': 'unchecked'},
                          {'op': step[0], 'layer': 'core', 'parent': 'unchecked'})
                # the child that the shortcut returns is the one serialisation shows; unset -> None, not an error
                e = lib.make(cls, check=True, with_required=True)
                r = lib.call(getattr, e, 'xml_' + s.replace('-', '_'))
                evals += 1
                if r[0] == 'exc' or r[1] is not None:
                    v('unset-child-read-not-none', cn, t, {'child': s, 'got': type(r[1]).__name__},
                      {'exc': type(r[1]).__name__ if r[0] == 'exc' else None})
                k = lib.make(ccls)
                if lib.call(setattr, e, 'xml_' + s.replace('-', '_'), k)[0] == 'ok':
                    got = lib.call(getattr, e, 'xml_' + s.replace('-', '_'))
                    evals += 1
                    if got[0] == 'exc' or got[1] is not k or k not in e.get_children(True):
                        v('shortcut-read-not-the-serialised-child', cn, t, {'child': s})
            # undeclared child names
            for bad in ('xml_foo', 'xml_pitchh', 'xml_'):
                e = lib.make(cls, check=True, with_required=True)
                evals += 1
                r = lib.call(getattr, e, bad)
                if r[0] == 'ok' or not isinstance(r[1], AttributeError) or 'NoneType' in str(r[1]):
                    v('unknown-shortcut-read', cn, t, {'name': bad, 'got': repr(r[1])[:80]})
                r = lib.call(setattr, e, bad, None)
                if r[0] == 'ok' or not isinstance(r[1], AttributeError) or 'NoneType' in str(r[1]):
                    v('unknown-shortcut-write', cn, t, {'name': bad, 'got': repr(r[1])[:80]},
                      {'exc': type(r[1]).__name__ if r[0] == 'exc' else None})
            # ---- seeded mixed sequences
            for _ in range(4 if tier == 'quick' else 60):
                n = rnd.randint(3, 10)
                script = []
                used = []
                for _i in range(n):
                    s = rnd.choice(used) if used and rnd.random() < 0.5 else rnd.choice(alpha)
                    used.append(s)
                    ccls = lib.child_cls(s)
                    kinds = ['el', 'el', 'none', 'read']
                    if lib.default_value(ccls) is not None and not lib.has_required_attrs(ccls):
                        kinds += ['val', 'badval']
                    script.append((rnd.choice(kinds), s))
                evals += 1
                nontriv += 1
                c['mixed_sequences'] += 1
                d = run_script(cls, script, lib)
                if d:
                    # shrink: drop steps while the surfaces still differ
                    changed = True
                    while changed:
                        changed = False
                        for i in range(len(script)):
                            s2 = script[:i] + script[i + 1:]
                            if s2 and run_script(cls, s2, lib):
                                script = s2; changed = True
                                break
                    d = run_script(cls, script, lib)
                    step = script[d[0]] if d[0] < len(script) else ('final', '')
                    v('surfaces-differ:' + d[1], cn, t, {'script': script, 'step': d[0], 'shortcut': str(d[2])[:200],
                                                         'explicit': str(d[3])[:200]},
                      {'op': step[0], 'layer': 'core' if len(script) <= 3 else 'halo',
                       'shape': ';'.join(k for k, _ in script) if len(script) <= 5 else 'long'})
                if len(samples) < 2:
                    samples.append({'class': cn, 'script': script})
        # ---- attribute half
        if t in ref.ALL:
            table = [a for a in ref.attr_table(t)]
            for an, at, req in table:
                key = an.split(':')[-1].replace('-', '_')
                evals += 1
                nontriv += 1
                c['attribute_pairs'] += 1
                if at is None:
                    good, bad = ('en' if an == 'xml:lang' else 'preserve' if an == 'xml:space' else 'simple'), None
                else:
                    forms = [f for f in ref.valid_forms(at) if ref.valid(at, f) and f == f.strip() and f]
                    good = forms[0] if forms else None
                    bads = [f for f in ref.invalid_forms(at) if not ref.valid(at, f)]
                    bad = bads[0] if bads else None
                val = lib.default_value(cls)

                def kw_build(pv):
                    return cls(val, xsd_check=False, **{key: pv}) if val is not None else cls(xsd_check=False, **{key: pv})

                def dot_build(pv):
                    e = cls(val, xsd_check=False) if val is not None else cls(xsd_check=False)
                    setattr(e, key, pv)
                    return e
                for lex, expect in ((good, True), (bad, False)):
                    if lex is None:
                        continue
                    for pv in lib.py_candidates(lex):
                        ra = lib.call(kw_build, pv)
                        rb = lib.call(dot_build, pv)
                        evals += 1
                        sa = 'ok' if ra[0] == 'ok' else type(ra[1]).__name__
                        sb_ = 'ok' if rb[0] == 'ok' else type(rb[1]).__name__
                        if (sa == 'ok') != (sb_ == 'ok'):
                            v('keyword-vs-dot-acceptance', cn, t, {'attr': an, 'value': repr(pv), 'keyword': sa, 'dot': sb_},
                              {'attr': an})
                        elif sa == 'ok':
                            if dict(ra[1].attributes) != dict(rb[1].attributes) or ra[1].to_string() != rb[1].to_string():
                                v('keyword-vs-dot-result', cn, t, {'attr': an, 'value': repr(pv)}, {'attr': an})
                            got = lib.call(getattr, rb[1], key)
                            stored = list(rb[1].attributes.values())
                            if got[0] == 'exc' or (stored and got[1] != stored[0]):
                                v('dot-read-not-stored-value', cn, t, {'attr': an, 'got': repr(got[1])[:60]}, {'attr': an})
                        elif sa != sb_ and not ({sa, sb_} <= {'AttributeError', 'XSDWrongAttribute'}):
                            v('keyword-vs-dot-exception', cn, t, {'attr': an, 'value': repr(pv), 'keyword': sa, 'dot': sb_},
                              {'attr': an})
                # a dot RE-assignment must answer like a constructor keyword on a fresh element, whatever the attribute holds:
                # probed with the equal value of the other number kind (1 -> 1.0, 2.0 -> 2) and with the same value again
                if good is not None and at is not None:
                    for pv in lib.py_candidates(good):
                        if isinstance(pv, bool) or not isinstance(pv, (int, float)) or pv != pv or abs(pv) > 1e15 or float(pv) != int(pv):
                            continue
                        a0 = lib.call(kw_build, pv)
                        if a0[0] == 'exc':
                            continue
                        for twin in ((float(pv) if isinstance(pv, int) else int(pv)), pv):
                            ra = lib.call(setattr, a0[1], key, twin)
                            rb = lib.call(kw_build, twin)
                            evals += 1
                            c['reassignment_pairs'] += 1
                            sa = 'ok' if ra[0] == 'ok' else type(ra[1]).__name__
                            sb_ = 'ok' if rb[0] == 'ok' else type(rb[1]).__name__
                            if sa != sb_:
                                v('dot-reassignment-vs-keyword', cn, t, {'attr': an, 'held': repr(pv), 'assigned': repr(twin),
                                                                        'dot': sa, 'keyword': sb_}, {'attr': an})
                            elif sa == 'ok' and (dict(a0[1].attributes) != dict(rb[1].attributes) or
                                                 a0[1].to_string() != rb[1].to_string()):
                                v('dot-reassignment-vs-keyword-result', cn, t, {'attr': an, 'held': repr(pv),
                                                                               'assigned': repr(twin)}, {'attr': an})
                            if ra[0] == 'exc':
                                break
                # unset declared attribute reads as None
                e = lib.call(lambda: cls(val, xsd_check=False) if val is not None else cls(xsd_check=False))
                if e[0] == 'ok':
                    r = lib.call(getattr, e[1], key)
                    evals += 1
                    if r[0] == 'exc' or r[1] is not None:
                        v('unset-attribute-read-not-none', cn, t, {'attr': an, 'got': repr(r[1])[:60]}, {'attr': an})
            e = lib.call(lambda: lib.make(cls))
            if e[0] == 'ok':
                r = lib.call(getattr, e[1], 'no_such_attribute')
                evals += 1
                if r[0] == 'ok' or not isinstance(r[1], AttributeError) or 'NoneType' in str(r[1]):
                    v('undeclared-attribute-read', cn, t, {'got': repr(r[1])[:80]},
                      {'exc': type(r[1]).__name__ if r[0] == 'exc' else None})
    return {'evaluations': evals, 'distinct_nontrivial': nontriv, 'violations': viol, 'samples': samples,
            'counters': dict(c, stdio_events=len(lib.STDIO_EVENTS)), 'exhaustive': False}


def replay_case(rp):
    from .. import lib
    case = rp['case']
    cls = lib.CLASSES[case['cls']]
    if 'script' in case:
        d = run_script(cls, [tuple(x) for x in case['script']], lib)
        return {'violated': d is not None, 'difference': str(d)[:400]}
    res = run_shard({'slice': sorted(lib.CLASSES).index(case['cls']) % NSHARDS}, 'quick', 0)
    mine = [x for x in res['violations'] if x['case'].get('cls') == case['cls'] and x['sig'] == rp['sig']]
    return {'violated': bool(mine)}
