"""C07 - add_child never accepts a child that makes the element impossible to complete.\n\nMonitor: API recorder; oracle: after every successful addition the multiset of children held must be a sub-multiset of some word of the reference language (BFS over DFA state x remaining multiset)."""
from .. import ref, genhist
from . import _histcheck

PROPERTY = 'C07'
LEVEL = 'exploration'
RULE = ('per element-content type: core = every sequence of <=3 additions (<=2 when the alphabet exceeds 12; thorough <=3, <=4 for alphabets <=8) and every <=1 addition (thorough <=2) followed by one other operation; halo = seeded histories (addition-only, guided by shuffled valid words, mixed, removal-heavy, shortcut). The oracle runs after every successful addition (also through xml_* shortcuts). non-trivial = at least one successful addition was judged; distinct = distinct operation string')
ASSUMPTIONS = ['reference DFAs built from /verif/ref/musicxml_4_0.xsd are the schema (self-tested, cross-checked by C03)', 'children are minimal unchecked instances so only the parent level is judged; parents carry their schema-required attributes', 'witnesses are shrunk by delta debugging before classification; beyond a fixed number per pre-signature they are only counted']
TIMEOUT = {'quick': 900, 'thorough': 5400}
PROPS = ('C07',)


def plan(tier, seed):
    return _histcheck.plan(lambda t: (genhist.n_core_forward_first(t, 2) * 1 + genhist.n_core_additions(t, genhist.nadd_for(t, tier)) + genhist.n_core_mixed(t, 1 if tier == 'quick' else 2) + 400))


def run_shard(shard, tier, seed):
    t = shard['type']
    n = genhist.nadd_for(t, tier)
    m = 1 if tier == 'quick' else 2
    cores = [genhist.core_forward_first(t, 2), genhist.core_additions(t, n), genhist.core_mixed(t, m, ('rm', 'rep', 'repa', 'fwd', 'set'))]
    halos = [('addonly', 80, 12), ('guided', 80, 14), ('mixed', 50, 10), ('removal', 40, 10), ('shortcut', 20, 8)] if tier == 'quick' else [('addonly', 1500, 16), ('guided', 1500, 25), ('mixed', 800, 14), ('removal', 600, 12), ('shortcut', 300, 10)]
    return _histcheck.run(shard, tier, seed, PROPERTY, cores, halos, PROPS, shrink_per_presig=6)


def replay_case(rp):
    return _histcheck.replay_case(rp, PROPERTY, PROPS)
