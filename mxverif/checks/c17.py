"""C17 — write() is all-or-nothing and file I/O does not depend on the process locale.

Monitors: destination bytes before/after every write(); sys.addaudithook 'open' events ordered against the return of
to_string (M-audit); sys.monitoring LINE events as source-free fault-injection points inside write(); subprocesses
with the real ASCII default encoding; -X warn_default_encoding with EncodingWarning as error (M-enc); emulated
Latin-1 / cp1252 defaults; strace (thorough) as a syscall-level cross-check of the ordering.
"""
import collections
import json
import os
import random
import shutil
import subprocess
import sys
import tempfile
import xml.etree.ElementTree as ET

from .. import ref, docs

PROPERTY = 'C17'
LEVEL = 'fault_enumeration'
RULE = ('fault enumeration on write(): (i) for generated valid scores, every node of the tree in turn is made to fail its '
        'check (a required child removed, a required attribute removed, the value of a simple-typed node withheld), '
        'write() is called (with intelligent_choice off and on) for every prior state of the destination (absent, empty, previous content) and the bytes are '
        'compared; (ii) source-free fault injection: a private exception is raised at every library LINE event executed '
        'inside write() before the document text exists; (iii) successful writes: bytes == declaration + to_string() in '
        'UTF-8, with non-ASCII and non-BMP text and with every kind of line boundary inside text (LF, CR, CR LF, U+0085, U+2028, U+2029); (iv) configurations: the same import / build / write / parse scenario in '
        'subprocesses under the UTF-8 default, the real ASCII default (LC_ALL=C, no coercion, utf8 mode off), emulated '
        'Latin-1 and cp1252 defaults, and with EncodingWarning turned into an error. non-trivial = a fault point at which '
        'write() raised or a configuration run; distinct = distinct (score, node, failure kind, prior state) / (score, '
        'line event index) / configuration')
ASSUMPTIONS = ['the image has only the C, C.utf8 and POSIX locales: Latin-1 and cp1252 defaults are emulated by a wrapper around '
               'builtins.open / io.open that supplies encoding= only when the callee passed none and the mode is text',
               'faults after the document text exists (during the final file write) are outside the property',
               'running as root: read-only destinations are not distinguishable, so that prior state is not explored']
TIMEOUT = {'quick': 900, 'thorough': 3600}


def plan(tier, seed):
    n = 8 if tier == 'quick' else 16
    return [{'mode': 'nodes', 'slice': i, 'cost': 10} for i in range(n)] + \
           [{'mode': 'lines', 'slice': i, 'cost': 10} for i in range(4 if tier == 'quick' else 8)] + \
           [{'mode': 'config', 'cost': 20}]


class Inject(Exception):
    pass


def gen_score(rnd, lib, nonascii=True):
    """a valid score built through the API (retries until the builder accepts)"""
    for _ in range(60):
        el = ref.gen_el('score-partwise', rnd, rnd.choice([6, 7]), {
            'pattr': 0.3, 'maxkids': 3, 'skip_attrs': ('xml:lang', 'xml:space', 'name'),
            'skip_elements': ('link', 'opus', 'part-link', 'miscellaneous-field', 'harmony', 'credit', 'metronome', 'sound')})
        if nonascii:
            for n in el.iter():
                t = ref.eltype(n.tag)
                sb = ref.simple_base(t) if t in ref.ALL else t
                if sb in ('xs:string',) and not len(n):
                    n.text = rnd.choice(['Größe', 'naïve café', '作品', '𝄞 clef', 'plain', 'Ünïcödé', 'line\u2028separator',
                                         'next\u0085line', 'para\u2029graph', 'two\nlines', 'cr\rlf\r\n', 'tab\there'])
        if nonascii and rnd.random() < 0.4:
            # one long run of multi-byte characters: the UTF-8 length exceeds the character count by more than any block size
            big = [n for n in el.iter() if not len(n) and (ref.simple_base(ref.eltype(n.tag)) if ref.eltype(n.tag) in ref.ALL
                                                          else ref.eltype(n.tag)) == 'xs:string']
            if big:
                rnd.choice(big).text = rnd.choice(['\u4f5c\u54c1', '\u0416\u0443\u043a', '\U0001d11e']) * rnd.choice([1500, 3000, 9000])
        if ref.validate_doc(el):
            continue
        try:
            obj = docs.build_api(el, lib, check=True)
        except docs.BuildRefused:
            continue
        if lib.call(obj.to_string)[0] == 'ok':
            return el, obj
    return None, None


def all_nodes(e):
    out = [e]
    for c in e.get_children(False):
        out += all_nodes(c)
    return out


def break_node(n, lib):
    """list of (kind, undo) ways to make node n fail its own final check, applied in place; returns description or None"""
    t = lib.xsd_type_name(type(n))
    out = []
    if t in ref.ALL:
        for an, at, req in ref.attr_table(t):
            if req and an in n.attributes:
                out.append(('required-attribute', an))
                break
        if t in ref.DFAS and n.xsd_check:
            kids = n.get_children(False)
            d = ref.DFAS[t]
            for k in kids:
                rest = [x.name for x in n.get_children(True) if x is not k]
                if not d.accepts(rest):
                    out.append(('required-child', k))
                    break
    else:
        out.append(('value', None))
    return out


def run_nodes(shard, tier, seed):
    from .. import lib
    viol = []
    c = collections.Counter()
    evals = 0
    nontriv = 0
    samples = []
    rnd = random.Random('%s:C17:n%d' % (seed, shard['slice']))
    d = tempfile.mkdtemp(prefix='mxverif-c17-')
    path = os.path.join(d, 'out.xml')
    opened = []

    def hook(event, args):
        if event == 'open' and isinstance(args[0], str) and args[0] == path:
            opened.append((args[1], hook.text_exists))
    hook.text_exists = False
    sys.addaudithook(hook)
    try:
        for k in range(2 if tier == 'quick' else 6):
            el, score = gen_score(rnd, lib)
            if score is None:
                c['no_score'] += 1
                continue
            # (iii) successful write, over every prior state of the destination
            want = (docs.DECL + score.to_string()).encode('utf-8')
            failed = False
            for prior in ('absent', 'empty', 'shorter', 'longer', 'much-longer'):
                if os.path.exists(path):
                    os.unlink(path)
                if prior != 'absent':
                    open(path, 'wb').write({'empty': b'', 'shorter': b'OLD', 'longer': want + b'<!-- tail of a longer file -->\n' * 3,
                                            'much-longer': b'x' * (len(want) * 3 + 100000)}[prior])
                evals += 1
                nontriv += 1
                r = lib.call(score.write, path)
                if r[0] == 'exc':
                    c['valid_score_write_failed'] += 1
                    failed = True
                    break
                data = open(path, 'rb').read() if os.path.exists(path) else None
                c['successful_writes'] += 1
                if data is None:
                    viol.append({'sig': {'kind': 'destination-missing-after-successful-write', 'prior': prior},
                                 'case': {'score': docs.to_text(el)[:3000]}, 'detail': {}})
                    break
                if data != want and prior != 'absent':
                    kind = 'written-bytes-differ'
                    if data.startswith(want):
                        kind = 'previous-content-not-truncated'
                    viol.append({'sig': {'kind': kind, 'prior': prior}, 'case': {'score': docs.to_text(el)[:3000]},
                                 'detail': {'written': len(data), 'expected': len(want)}})
                    break
                if prior == 'absent' and data != want:
                    break
            if failed:
                continue
            if os.path.exists(path):
                os.unlink(path)
            lib.call(score.write, path)
            data = open(path, 'rb').read() if os.path.exists(path) else b''
            if data != want:
                kind = 'written-bytes-differ'
                try:
                    if data.decode('utf-8') == want.decode('utf-8'):
                        kind = 'written-bytes-differ-newlines'
                except UnicodeDecodeError:
                    kind = 'written-bytes-not-utf8'
                viol.append({'sig': {'kind': kind}, 'case': {'score': docs.to_text(el)[:3000]}, 'detail': {}})
            try:
                ET.fromstring(data)
            except ET.ParseError as err:
                viol.append({'sig': {'kind': 'written-file-unparsable'}, 'case': {'score': docs.to_text(el)[:3000]},
                             'detail': {'err': str(err)}})
            # (i) every node fails in turn
            nodes = all_nodes(score)
            c['nodes'] += len(nodes)
            if len(samples) < 1:
                samples.append({'score_elements': len(nodes), 'root': 'score-partwise'})
            limit = 60 if tier == 'quick' else 400
            order = list(range(len(nodes)))
            rnd.shuffle(order)
            for idx in order[:limit]:
                n = nodes[idx]
                for kind, what in break_node(n, lib):
                    # apply
                    undo = None
                    if kind == 'required-attribute':
                        old = n.attributes[what]
                        setattr(n, what.replace('-', '_'), None)
                        undo = lambda n=n, what=what, old=old: setattr(n, what.replace('-', '_'), old)
                    elif kind == 'required-child':
                        parent = n
                        pos_kids = list(n.get_children(False))
                        n.remove(what)
                        undo = None          # children cannot be put back in place reliably: rebuild afterwards
                    elif kind == 'value':
                        old = n.value_
                        n._value = None       # withhold the value (the only way to reach the 'needs a value' check)
                        undo = lambda n=n, old=old: setattr(n, '_value', old)
                    for prior, ic in [(p_, f_) for p_ in ('absent', 'empty', 'previous') for f_ in (False, True)]:
                        if prior == 'absent':
                            if os.path.exists(path):
                                os.unlink(path)
                            before = None
                        elif prior == 'empty':
                            open(path, 'wb').close()
                            before = b''
                        else:
                            before = b'PREVIOUS CONTENT \xc3\xa9\n' * 3
                            open(path, 'wb').write(before)
                        evals += 1
                        del opened[:]
                        r = lib.call(score.write, path, True) if ic else lib.call(score.write, path)
                        opened_w = [o for o in opened if any(ch in str(o[0]) for ch in 'wax+')]
                        after = open(path, 'rb').read() if os.path.exists(path) else None
                        if r[0] == 'exc':
                            nontriv += 1
                            c['failing_writes'] += 1
                            if after != before:
                                viol.append({'sig': {'kind': 'failed-write-changed-destination', 'prior': prior,
                                                     'failure': kind, 'exc': type(r[1]).__name__, 'intelligent_choice': 'on' if ic else 'off'},
                                             'case': {'score': docs.to_text(el)[:3000], 'node': n.name, 'failure': kind},
                                             'detail': {'after': (after or b'')[:80].decode('utf-8', 'replace')}})
                            if opened_w:
                                viol.append({'sig': {'kind': 'destination-opened-for-writing-by-a-failing-write', 'prior': prior,
                                                     'intelligent_choice': 'on' if ic else 'off'},
                                             'case': {'score': docs.to_text(el)[:3000], 'node': n.name, 'failure': kind},
                                             'detail': {'open_events': [o[0] for o in opened_w]}})
                        else:
                            c['break_did_not_fail'] += 1
                    if undo:
                        undo()
                    else:
                        # rebuild the score (a child was removed)
                        score = docs.build_api(el, lib, check=True)
                        nodes = all_nodes(score)
                        break
    finally:
        shutil.rmtree(d, ignore_errors=True)
    return {'evaluations': evals, 'distinct_nontrivial': nontriv, 'violations': viol, 'samples': samples,
            'counters': dict(c, stdio_events=len(lib.STDIO_EVENTS)), 'exhaustive': tier == 'thorough'}


def run_lines(shard, tier, seed):
    """raise a private exception at every library LINE event inside write() before the text exists"""
    from .. import lib
    mon = sys.monitoring
    TOOL = 2
    viol = []
    c = collections.Counter()
    evals = 0
    nontriv = 0
    rnd = random.Random('%s:C17:l%d' % (seed, shard['slice']))
    d = tempfile.mkdtemp(prefix='mxverif-c17-')
    path = os.path.join(d, 'out.xml')
    marker = os.sep + 'musicxml' + os.sep
    state = {'count': 0, 'target': None, 'text_exists': False, 'depth': 0}
    to_string_code = lib.XMLElement.to_string.__code__

    def line(code, lineno):
        if marker not in code.co_filename:
            return mon.DISABLE
        if state['text_exists']:
            return None
        state['count'] += 1
        if state['count'] == state['target']:
            raise Inject('line %s:%d' % (os.path.basename(code.co_filename), lineno))

    def py_start(code, off):
        if code is to_string_code:
            state['depth'] += 1

    def py_return(code, off, retval):
        if code is to_string_code:
            state['depth'] -= 1
            if state['depth'] == 0:
                state['text_exists'] = True

    def py_unwind(code, off, exc):
        if code is to_string_code:
            state['depth'] -= 1

    try:
        el, score = gen_score(rnd, lib, nonascii=False)
        # keep it small: the number of line events is what is enumerated
        tries = 0
        while score is not None and sum(1 for _ in el.iter()) > (60 if tier == 'quick' else 150) and tries < 30:
            el, score = gen_score(rnd, lib, nonascii=False)
            tries += 1
        if score is None:
            return {'evaluations': 0, 'distinct_nontrivial': 0, 'violations': [], 'samples': [], 'counters': {'no_score': 1}}
        mon.use_tool_id(TOOL, 'mxverif-inject')
        mon.register_callback(TOOL, mon.events.LINE, line)
        mon.register_callback(TOOL, mon.events.PY_START, py_start)
        mon.register_callback(TOOL, mon.events.PY_RETURN, py_return)
        mon.register_callback(TOOL, mon.events.PY_UNWIND, py_unwind)

        def run(target):
            state.update(count=0, target=target, text_exists=False, depth=0)
            mon.restart_events()
            mon.set_events(TOOL, mon.events.LINE | mon.events.PY_START | mon.events.PY_RETURN | mon.events.PY_UNWIND)
            try:
                try:
                    score.write(path)
                    return 'ok'
                except Inject:
                    return 'injected'
                except Exception as e:  # noqa: BLE001
                    return 'exc:' + type(e).__name__
            finally:
                mon.set_events(TOOL, 0)
        before = b'PREVIOUS CONTENT\n'
        open(path, 'wb').write(before)
        run(None)
        total = state['count']
        c['line_events_before_text_exists'] = total
        step = 1 if tier == 'thorough' or total <= 3000 else max(1, total // 3000)
        for k in range(1, total + 1, step):
            open(path, 'wb').write(before)
            evals += 1
            res = run(k)
            if res == 'injected':
                nontriv += 1
                after = open(path, 'rb').read()
                if after != before:
                    viol.append({'sig': {'kind': 'injected-fault-before-text-changed-destination'},
                                 'case': {'score': docs.to_text(el)[:3000], 'line_event': k},
                                 'detail': {'after': after[:80].decode('utf-8', 'replace')}})
            else:
                c['not_injected:' + res] += 1
            # the element must still be writable afterwards
        open(path, 'wb').write(before)
        if run(None) != 'ok':
            viol.append({'sig': {'kind': 'score-unwritable-after-injected-faults'}, 'case': {'score': docs.to_text(el)[:3000]},
                         'detail': {}})
    finally:
        try:
            mon.set_events(TOOL, 0)
            mon.free_tool_id(TOOL)
        except Exception:  # noqa: BLE001
            pass
        shutil.rmtree(d, ignore_errors=True)
    return {'evaluations': evals, 'distinct_nontrivial': nontriv, 'violations': viol,
            'samples': [{'score_elements': sum(1 for _ in el.iter()), 'line_events': c['line_events_before_text_exists']}],
            'counters': dict(c), 'exhaustive': step == 1}


SCENARIO = r'''
import sys, os, json, io, builtins
emul = os.environ.get('MXVERIF_EMULATE_ENCODING')
if emul:
    _open = builtins.open
    def _wrapped(file, mode='r', buffering=-1, encoding=None, errors=None, newline=None, closefd=True, opener=None):
        if 'b' not in mode and encoding is None:
            encoding = emul
        return _open(file, mode, buffering, encoding, errors, newline, closefd, opener)
    builtins.open = _wrapped
    io.open = _wrapped
out = {}
try:
    import locale
    out['preferred'] = locale.getencoding()
    from musicxml.xmlelement.xmlelement import *
    from musicxml.parser.parser import parse_musicxml
    out['import'] = 'ok'
    s = XMLScorePartwise(version='4.0')
    w = s.add_child(XMLWork()); w.add_child(XMLWorkTitle('Größe 作品 \U0001d11e naïve'))
    pl = s.add_child(XMLPartList()); sp = pl.add_child(XMLScorePart(id='P1')); sp.add_child(XMLPartName('Flöte'))
    p = s.add_child(XMLPart(id='P1')); m = p.add_child(XMLMeasure(number='1'))
    n = m.add_child(XMLNote()); n.add_child(XMLRest()); n.add_child(XMLDuration(4))
    path = sys.argv[1]
    s.write(path)
    data = open(path, 'rb').read()
    out['write'] = 'ok'
    out['bytes_sha'] = __import__('hashlib').sha256(data).hexdigest()
    out['is_utf8_of_to_string'] = data == ('<?xml version="1.0" encoding="UTF-8" standalone="no"?>\n' + s.to_string()).encode('utf-8')
    t = parse_musicxml(path)
    out['parse'] = 'ok'
    out['title'] = t.get_children()[0].get_children()[0].value_
    out['reparsed_sha'] = __import__('hashlib').sha256(t.to_string().encode('utf-8')).hexdigest()
    out['part_name'] = t.get_children()[1].get_children()[0].get_children()[0].value_
except BaseException as e:
    out['error'] = type(e).__name__ + ': ' + str(e)[:200]
print('RESULT ' + json.dumps(out))
'''


def run_config(shard, tier, seed):
    viol = []
    c = collections.Counter()
    repo = os.environ.get('VERIF_REPO', '/repo')
    d = tempfile.mkdtemp(prefix='mxverif-c17-')
    results = {}
    configs = {
        'utf8-default': (['-X', 'utf8=1'], {}),
        'ascii-default': (['-X', 'utf8=0'], {'LC_ALL': 'C', 'LANG': 'C', 'PYTHONCOERCECLOCALE': '0'}),
        'posix-default': (['-X', 'utf8=0'], {'LC_ALL': 'POSIX', 'PYTHONCOERCECLOCALE': '0'}),
        'latin-1-emulated': (['-X', 'utf8=0'], {'LC_ALL': 'C.UTF-8', 'MXVERIF_EMULATE_ENCODING': 'latin-1'}),
        'cp1252-emulated': (['-X', 'utf8=0'], {'LC_ALL': 'C.UTF-8', 'MXVERIF_EMULATE_ENCODING': 'cp1252'}),
        'encoding-warning-as-error': (['-X', 'warn_default_encoding', '-W', 'error::EncodingWarning'], {'LC_ALL': 'C.UTF-8'}),
    }
    try:
        script = os.path.join(d, 'scenario.py')
        open(script, 'w', encoding='utf-8').write(SCENARIO)
        for name, (flags, env) in configs.items():
            e = {k: v for k, v in os.environ.items() if not k.startswith(('LC_', 'LANG', 'PYTHONUTF8', 'PYTHONIOENCODING'))}
            e.update(env)
            e['PYTHONPATH'] = repo
            e['PYTHONWARNINGS'] = ''
            e.pop('PYTHONWARNINGS')
            out = os.path.join(d, name + '.xml')
            try:
                p = subprocess.run(['/venv/bin/python', '-B'] + flags + [script, out], env=e, capture_output=True, timeout=120)
            except subprocess.TimeoutExpired:
                results[name] = {'error': 'timeout'}
                continue
            line = [l for l in p.stdout.decode('utf-8', 'replace').split('\n') if l.startswith('RESULT ')]
            results[name] = json.loads(line[0][7:]) if line else {'error': 'no result: ' + p.stderr.decode('utf-8', 'replace')[-300:]}
        base = results.get('utf8-default', {})
        if base.get('error') or not base.get('is_utf8_of_to_string') or base.get('title') != 'Größe 作品 \U0001d11e naïve' or base.get('part_name') != 'Flöte':
            viol.append({'sig': {'kind': 'scenario-fails-under-utf8-default'}, 'case': {'config': 'utf8-default'},
                         'detail': base})
        for name, r in results.items():
            c['configurations'] += 1
            if name == 'utf8-default':
                continue
            for key in ('import', 'write', 'parse', 'bytes_sha', 'is_utf8_of_to_string', 'title', 'part_name', 'reparsed_sha'):
                if r.get(key) != base.get(key):
                    viol.append({'sig': {'kind': 'behaviour-depends-on-default-encoding', 'config': name, 'stage': key},
                                 'case': {'config': name}, 'detail': {'got': r.get(key), 'want': base.get(key),
                                                                       'error': r.get('error')}})
                    break
        if tier == 'thorough' and shutil.which('strace'):
            # syscall-level cross-check: on a failing write no openat(..., O_WRONLY|O_TRUNC) of the destination may occur
            out = os.path.join(d, 'strace.xml')
            open(out, 'w').write('PREVIOUS')
            code = ("from musicxml.xmlelement.xmlelement import *\n"
                    "s = XMLScorePartwise(version='4.0')\n"
                    "try:\n    s.write(%r)\nexcept Exception as e:\n    print('raised', type(e).__name__)\n" % out)
            p = subprocess.run(['strace', '-f', '-e', 'trace=openat,creat,truncate,ftruncate,rename', '-o', os.path.join(d, 'trace'),
                                '/venv/bin/python', '-B', '-c', code], env=dict(os.environ, PYTHONPATH=repo),
                               capture_output=True, timeout=300)
            tr = open(os.path.join(d, 'trace')).read() if os.path.exists(os.path.join(d, 'trace')) else ''
            hits = [l for l in tr.split('\n') if 'strace.xml' in l and ('O_TRUNC' in l or 'O_WRONLY' in l or 'O_RDWR' in l)]
            c['strace_lines'] = len(tr.split('\n'))
            if hits or open(out).read() != 'PREVIOUS':
                viol.append({'sig': {'kind': 'destination-opened-for-writing-on-failing-write(strace)'},
                             'case': {'config': 'strace'}, 'detail': {'syscalls': hits[:3]}})
    finally:
        shutil.rmtree(d, ignore_errors=True)
    return {'evaluations': len(results) + 1, 'distinct_nontrivial': len(results), 'violations': viol,
            'samples': [{'config': k, 'result': {kk: vv for kk, vv in v.items() if kk != 'bytes_sha'}} for k, v in list(results.items())[:3]],
            'counters': dict(c)}


def run_shard(shard, tier, seed):
    if shard['mode'] == 'nodes':
        return run_nodes(shard, tier, seed)
    if shard['mode'] == 'lines':
        return run_lines(shard, tier, seed)
    return run_config(shard, tier, seed)


def replay_case(rp):
    case = rp['case']
    if 'config' in case:
        res = run_config({}, 'quick', 0)
    elif 'line_event' in case:
        res = run_lines({'slice': 0}, 'quick', rp.get('seed', 0))
    else:
        res = run_nodes({'slice': 0}, 'quick', rp.get('seed', 0))
    kinds = {v['sig']['kind'] for v in res['violations']}
    return {'violated': rp['sig']['kind'] in kinds, 'kinds': sorted(kinds)}
