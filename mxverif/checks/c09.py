"""C09 — any schema-valid MusicXML file is read without loss; nothing is silently dropped.

Monitor: parse_musicxml call/return/raise recorder + infoset comparator / containment checker.
Oracle: reference validator certifies the input; infoset equality (first half), containment (second half).
"""
import collections
import copy
import glob
import os
import random
import xml.etree.ElementTree as ET

from .. import ref, docs

PROPERTY = 'C09'
LEVEL = 'exploration'
RULE = ('(a) XML text generated from the reference grammar without the library (every attribute form the schema allows: '
        'xml:lang, xml:space, xlink:*, name=, unusual numeric spellings, padded values), certified valid by the reference '
        'validator, per element name and as whole score-partwise documents, plus the real-world exports shipped with the '
        'repository: parse_musicxml must succeed and re-serialise to the same infoset up to numeric spelling and '
        'surrounding/collapsible whitespace; a failing document is localised to the deepest failing subtree and shrunk '
        'while it stays reference-valid. (c) for every element-content type, valid words of <=5 children in every other order (150 per type in quick): nothing may be dropped silently. (b) structure-aware mutations of those documents (any input): whenever '
        'parse_musicxml returns, every element, attribute and text/tail value of the input must appear in the '
        're-serialisation. non-trivial = certified-valid document (a) or a mutation on which the parser returned (b); '
        'distinct = distinct input text')
ASSUMPTIONS = ['surrounding whitespace of string-typed text is treated as insignificant for C09 (the statement allows '
               '"insignificant whitespace" without defining it): deliberately lenient',
               'comments, processing instructions, carriage returns and characters outside XML Char are not generated',
               'xlink attribute types are hand-modelled (xlink.xsd is not available offline)']
TIMEOUT = {'quick': 900, 'thorough': 3600}
NSHARDS = 16
SPELL = {'xs:decimal': ['+4', '007', '4.50', '.5', '5.', ' 3 '], 'xs:integer': ['+4', '007', ' 3 '],
         'xs:positiveInteger': ['+4', '007'], 'xs:nonNegativeInteger': ['+0', '007']}


def plan(tier, seed):
    return [{'slice': i, 'cost': 1} for i in range(NSHARDS)] + ([{'slice': 'exports', 'cost': 5}])


def respell(el, rnd):
    """replace some numeric texts / attribute values by unusual but valid spellings of the same kind"""
    for n in el.iter():
        if n.tag not in ref.ELS:
            continue
        t = ref.eltype(n.tag)
        sb = ref.simple_base(t) if t in ref.ALL else t
        if sb and not len(n) and rnd.random() < 0.3:
            v = ref.collapse(n.text or '')
            if ref.INT.fullmatch(v) and not v.startswith(('+', '-')):
                for cand in ('+' + v, '00' + v, ' ' + v + ' ', v + '.0', v + '.'):
                    if ref.valid(sb, cand) and rnd.random() < 0.4:
                        n.text = cand
                        break


def classify_parse_failure(sub):
    """what is special about the minimal failing document (for the signature)"""
    root = sub
    feats = []
    for n in root.iter():
        for k in n.attrib:
            p = ref.qname_to_prefixed(k)
            if ':' in p:
                feats.append('attr:' + p.split(':')[0] + ':*')
            elif p == 'name':
                feats.append('attr:name')
    return sorted(set(feats))


def run_valid(el, lib, tmp, viol, c, label):
    from musicxml.parser.parser import parse_musicxml

    def outcome(tree):
        tmp.write(docs.to_text(tree))
        r = lib.call(parse_musicxml, tmp.name)
        if r[0] == 'exc':
            return ('raises', type(r[1]).__name__, r[1])
        s = lib.call(r[1].to_string)
        if s[0] == 'exc':
            return ('reserialise-raises', type(s[1]).__name__, s[1])
        try:
            out = ET.fromstring(s[1])
        except ET.ParseError as e:
            return ('output-unparsable', 'ParseError', e)
        d = docs.infoset_diff(copy.deepcopy(tree), out, lenient_ws=True, limit=4)
        if d:
            return ('infoset-differs', None, d)
        return ('ok', None, None)

    o = outcome(el)
    if o[0] == 'ok' or o[0] == 'reserialise-raises':
        # serialised with intelligent_choice=True (a fresh parse): where that returns, it must give the input back as well
        tmp.write(docs.to_text(el))
        r2 = lib.call(parse_musicxml, tmp.name)
        s2 = lib.call(r2[1].to_string, True) if r2[0] == 'ok' else r2
        if s2[0] == 'ok':
            c['valid_also_serialised_with_intelligent_choice'] += 1
            d2 = docs.infoset_diff(copy.deepcopy(el), ET.fromstring(s2[1]), lenient_ws=True, limit=4)
            if d2:
                d0 = d2[0]
                sig2 = {'kind': 'infoset-differs', 'type': ref.eltype(el.tag), 'intelligent_choice': 'on',
                        'what': d0[1], 'at': d0[0].split('/')[-1]}
                if d0[1] in ('text', 'attribute-value'):
                    # the same value-level mechanisms as on the default path (numeric spelling, stripped blanks ...) are keyed
                    # by mechanism, not by where they show up
                    cause = docs.diff_cause(*((d0[2], d0[3]) if d0[1] == 'text' else (d0[3], d0[4])), lenient=True)
                    if cause:
                        sig2 = {'kind': 'infoset-differs', 'cause': cause, 'what': d0[1]}
                viol.append({'sig': sig2,
                             'case': {'text': docs.to_text(el), 'label': label, 'half': 'valid', 'ic': True},
                             'detail': {'diff': [list(map(str, x)) for x in d2[:3]]}})
                return 'violated'
    if o[0] == 'ok':
        return 'ok'
    kind = o[0]

    def fails(tree):
        oo = outcome(tree)
        return oo[0] == kind and (oo[1] == o[1])
    sub = docs.localize(el, fails)
    c['localised'] += 1
    mini = docs.shrink_doc(sub, fails, max_steps=60)
    o2 = outcome(mini)
    if o2[0] != kind:
        mini, o2 = sub, outcome(sub)
    t = ref.eltype(mini.tag)
    sig = {'kind': kind, 'type': t}
    if o2[1]:
        sig['exc'] = o2[1]
    feats = classify_parse_failure(mini)
    if feats:
        sig['features'] = feats
    if kind in ('raises', 'reserialise-raises'):
        site = lib.raise_site(o2[2]) if isinstance(o2[2], BaseException) else None
        if site:
            sig['site'] = site
        if not feats:
            sig['word'] = ','.join(ch.tag for ch in mini)
    else:
        d = o2[2][0] if isinstance(o2[2], list) and o2[2] else ('?', '?')
        sig['what'] = d[1]
        cause = None
        if d[1] in ('text', 'attribute-value'):
            cause = docs.diff_cause(*((d[2], d[3]) if d[1] == 'text' else (d[3], d[4])), lenient=True)
        if cause:
            sig = {'kind': kind, 'cause': cause, 'what': d[1]}
        elif d[1] == 'children':
            sig['word'] = ','.join(ch.tag for ch in mini)
        elif d[1] in ('attribute-set', 'attribute-value'):
            sig['attr'] = d[2]
        elif d[1] in ('text', 'tail'):
            sig['at'] = d[0].split('/')[-1]
    viol.append({'sig': sig, 'case': {'text': docs.to_text(mini), 'label': label, 'half': 'valid'},
                 'detail': {'from_root': el.tag, 'msg': str(o2[2])[:200]}})
    return 'violated'


def run_mutant(el, how, lib, tmp, viol, c):
    from musicxml.parser.parser import parse_musicxml
    tmp.write(docs.to_text(el))
    r = lib.call(parse_musicxml, tmp.name)
    if r[0] == 'exc':
        c['mutant_parser_raised'] += 1
        cl = lib.classify_exception(r[1], dot_name=True)
        c['mutant_raise:' + type(r[1]).__name__] += 1
        return 'raised'
    s = lib.call(r[1].to_string)
    lost = []
    flag = 'off'
    if s[0] == 'exc':
        c['mutant_reserialise_raised'] += 1
    else:
        c['mutant_parser_returned'] += 1
        lost = docs.lost_items(el, ET.fromstring(s[1]))
    if not lost:
        # the other way of writing the tree back (what write(path, intelligent_choice=True) emits), on a fresh parse
        r2 = lib.call(parse_musicxml, tmp.name)
        s2 = lib.call(r2[1].to_string, True) if r2[0] == 'ok' else r2
        if s2[0] == 'ok':
            c['mutant_also_serialised_with_intelligent_choice'] += 1
            lost = docs.lost_items(el, ET.fromstring(s2[1]))
            flag = 'on'
        elif s[0] == 'exc':
            return 'raised'
    if lost:
        kinds = sorted({l[0] for l in lost})
        for k in kinds:
            first = next(l for l in lost if l[0] == k)
            sig = {'kind': 'silent-loss', 'lost': k}
            if flag == 'on':
                sig['intelligent_choice'] = 'on'
            if k == 'attribute':
                sig['attr'] = first[2]
            if k in ('text', 'tail'):
                leaf = first[1].split('/')[-1]
                t = ref.eltype(leaf) if leaf in ref.ELS else None
                sig['content'] = ('unknown-element' if t is None else
                                  'simple' if (t not in ref.ALL or ref.simple_base(t)) else
                                  'element-only' if t in ref.DFAS else 'empty')
            viol.append({'sig': sig, 'case': {'text': docs.to_text(el), 'half': 'any', 'mutation': how},
                         'detail': {'lost': [list(map(str, l)) for l in lost[:5]]}})
        return 'violated'
    return 'ok'


def run_shard(shard, tier, seed):
    from .. import lib
    viol = []
    c = collections.Counter()
    evals = 0
    seen = set()
    samples = []
    tmp = docs.TempFile('mxverif-c09-')
    try:
        if shard['slice'] == 'exports':
            repo = os.environ.get('VERIF_REPO', '/repo')
            files = sorted(glob.glob(os.path.join(repo, 'musicxml', 'parser', '*.xml')) +
                           glob.glob(os.path.join(repo, 'musicxml', 'tests', 'test_xmlelement', '*.xml')))
            for f in files:
                size = os.path.getsize(f)
                if size == 0 or (tier == 'quick' and size > 300000):
                    continue
                try:
                    root = ET.parse(f).getroot()
                except ET.ParseError:
                    continue
                if root.tag != 'score-partwise' or ref.validate_doc(root):
                    c['exports_not_certified'] += 1
                    continue
                evals += 1
                seen.add(f)
                res = run_valid(root, lib, tmp, viol, c, os.path.basename(f))
                c['exports_' + res] += 1
                samples.append({'export': os.path.basename(f), 'elements': sum(1 for _ in root.iter()), 'result': res})
            return {'evaluations': evals, 'distinct_nontrivial': len(seen), 'violations': viol, 'samples': samples[:2],
                    'counters': dict(c)}
        rnd = random.Random('%s:C09:%d' % (seed, shard['slice']))
        names = [n for i, n in enumerate(ref.ELEMENT_NAMES) if i % NSHARDS == shard['slice']]
        per = 2 if tier == 'quick' else 12
        valid_docs = []
        for n in names:
            for k in range(per):
                depth = (ref.HEIGHT[n] or 0) + rnd.choice([1, 2, 3])
                el = ref.gen_el(n, rnd, depth, {'pattr': rnd.choice([0.3, 0.6, 1.0]), 'maxkids': rnd.choice([3, 6])})
                respell(el, rnd)
                if ref.validate_doc(el):
                    c['generator_produced_invalid'] += 1
                    continue
                key = ET.tostring(el)
                if key in seen:
                    continue
                seen.add(key)
                evals += 1
                res = run_valid(el, lib, tmp, viol, c, n)
                c['valid_' + res] += 1
                valid_docs.append(el)
                if len(samples) < 2:
                    samples.append({'root': n, 'half': 'valid', 'result': res, 'text': docs.to_text(el, False)[:300]})
        for k in range(2 if tier == 'quick' else 20):
            el = ref.gen_el('score-partwise', rnd, rnd.choice([6, 7, 8]), {'pattr': 0.3, 'maxkids': 4})
            if ref.validate_doc(el):
                continue
            key = ET.tostring(el)
            if key in seen:
                continue
            seen.add(key)
            evals += 1
            res = run_valid(el, lib, tmp, viol, c, 'score')
            c['valid_score_' + res] += 1
            valid_docs.append(el)
        # (c) permuted children: for every element-content type, valid words of <= 5 children (shortest word, transition cover)
        # with the children in every order: out-of-order input makes the library search for another arrangement of what it
        # already holds; whatever it answers, nothing may be dropped silently
        import itertools
        types = [t for i, t in enumerate(sorted(ref.DFAS)) if i % NSHARDS == shard['slice']]
        for t in types:
            root_name = next((n for n in ref.ELEMENT_NAMES if ref.eltype(n) == t), None)
            if root_name is None:
                continue
            d = ref.DFAS[t]
            words = {tuple(w) for w in d.transition_cover() + [ref.shortest_word(t)] + d.words(3, limit=40) if 2 <= len(w) <= 5}
            perms = []
            for w in sorted(words):
                if len(set(w)) < 2:
                    continue
                perms += [(w, p_) for p_ in set(itertools.permutations(w))]         # the valid order itself included
            perms.sort()
            cap = 150 if tier == 'quick' else 2500
            if len(perms) > cap:
                perms = rnd.sample(perms, cap)
            kid_cache = {}
            for w, p_ in perms:
                root = ET.Element(root_name)
                for an, lexv in lib.required_attrs(t).items():
                    root.set(an, lexv)
                for sname in p_:
                    if sname not in kid_cache:
                        kid_cache[sname] = ref.gen_el(sname, random.Random(sname), (ref.HEIGHT[sname] or 0) + 1,
                                                      {'pattr': 0.0, 'maxkids': 2})
                    root.append(copy.deepcopy(kid_cache[sname]))
                evals += 1
                res = run_mutant(root, 'permuted-children', lib, tmp, viol, c)
                c['permuted_' + res] += 1
        # (b) mutations, any input
        nm = 4 if tier == 'quick' else 12
        for el in valid_docs:
            if sum(1 for _ in el.iter()) > 400:
                continue
            for k in range(nm):
                m, how = docs.mutate(el, rnd)
                key = ET.tostring(m)
                if key in seen:
                    continue
                seen.add(key)
                evals += 1
                res = run_mutant(m, how, lib, tmp, viol, c)
                c['mutant_' + res] += 1
    finally:
        tmp.close()
    return {'evaluations': evals, 'distinct_nontrivial': len(seen), 'violations': viol, 'samples': samples,
            'counters': dict(c, stdio_events=len(lib.STDIO_EVENTS))}


def replay_case(rp):
    from .. import lib
    case = rp['case']
    el = ET.fromstring(case['text'].split('?>', 1)[1])
    viol = []
    tmp = docs.TempFile('mxverif-c09-')
    try:
        if case.get('half') == 'valid':
            res = run_valid(el, lib, tmp, viol, collections.Counter(), 'replay')
        else:
            res = run_mutant(el, case.get('mutation'), lib, tmp, viol, collections.Counter())
    finally:
        tmp.close()
    return {'violated': res == 'violated', 'violations': [v['sig'] for v in viol]}
