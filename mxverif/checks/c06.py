"""C06 - no child is ever lost, duplicated or orphaned.\n\nMonitors: M-shadow (sequential model fed by API results only), invariants evaluated at the boundary of every public call including the raise path, exactly-once count on every serialisation."""
from .. import ref, genhist
from . import _histcheck

PROPERTY = 'C06'
LEVEL = 'exploration'
RULE = ('per element-content type: core = every sequence of <=3 additions (<=2 when the alphabet exceeds 12; thorough <=3, <=4 for alphabets <=8) and every <=1 addition (thorough <=2) followed by one removal / replacement / forward addition / shortcut / serialisation; long = a valid word of ~300 children followed by replacements / removals at positions >= 257 with serialisations; moved = the <=2-addition and <=1-addition + one operation cores with children that were attached to and removed from another element before; twice = the same child object accepted twice and removed once: views stay permutations of each other, output count agrees; leaf classes = a child offered to every class without content model is refused or fully tracked; halo = seeded hostile histories (mixed, failure-biased, removal-heavy, long runs, shortcut-heavy, guided by valid words). A case is one history; the invariants (both views are permutations of each other and of the shadow model, parents, exactly-once in output) are evaluated after every operation. non-trivial = at least one operation; distinct = distinct operation string')
ASSUMPTIONS = ['reference DFAs built from /verif/ref/musicxml_4_0.xsd are the schema (self-tested, cross-checked by C03)', 'children are minimal unchecked instances so only the parent level is judged; parents carry their schema-required attributes', 'witnesses are shrunk by delta debugging before classification; beyond a fixed number per pre-signature they are only counted']
TIMEOUT = {'quick': 900, 'thorough': 5400}
PROPS = ('C06',)


def plan(tier, seed):
    return [{'mode': 'repotests', 'cost': 3000}, {'mode': 'leafclasses', 'cost': 500}, {'mode': 'twice', 'cost': 500}] + \
        [{'mode': 'long', 'type': t, 'cost': 2500} for t in sorted(ref.DFAS) if any(True for _ in genhist.core_long(t))] + \
        [{'mode': 'moved', 'type': t, 'cost': genhist.n_core_additions(t, 2) + genhist.n_core_mixed(t, 1)} for t in sorted(ref.DFAS)] + \
        _histcheck.plan(lambda t: (genhist.n_core_forward_first(t, 2) * 1 + genhist.n_core_additions(t, genhist.nadd_for(t, tier)) + genhist.n_core_mixed(t, 1 if tier == 'quick' else 2) + 400))


def run_shard(shard, tier, seed):
    if shard.get('mode') == 'repotests':
        return _histcheck.run_repo_tests(PROPERTY)
    if shard.get('mode') == 'leafclasses':
        return run_leafclasses()
    if shard.get('mode') == 'twice':
        return run_twice()
    t = shard['type']
    if shard.get('mode') == 'long':
        return _histcheck.run(shard, tier, seed, PROPERTY, [genhist.core_long(t, 300, 2 if tier == 'quick' else 6)], [], PROPS,
                              shrink_per_presig=1)
    if shard.get('mode') == 'moved':
        # children that were attached to, and removed from, another element of the same class before they are offered
        return _histcheck.run(shard, tier, seed, PROPERTY, [genhist.core_additions(t, 2), genhist.core_mixed(t, 1)],
                              [('mixed', 10, 8)] if tier == 'quick' else [('mixed', 200, 12), ('removal', 100, 10)], PROPS,
                              shrink_per_presig=2, child_moved=True)
    n = genhist.nadd_for(t, tier)
    m = 1 if tier == 'quick' else 2
    cores = [genhist.core_forward_first(t, 2), genhist.core_additions(t, n), genhist.with_final_str(genhist.core_additions(t, 2)), genhist.core_mixed(t, m, ('rm', 'rep', 'repa', 'fwd', 'str', 'set'))]
    halos = [('mixed', 60, 10), ('failure', 40, 10), ('removal', 40, 10), ('longrun', 6, 60), ('shortcut', 20, 8), ('guided', 40, 12), ('serialise', 30, 10)] if tier == 'quick' else [('mixed', 1000, 14), ('failure', 600, 12), ('removal', 600, 12), ('longrun', 40, 200), ('shortcut', 300, 10), ('guided', 800, 25), ('serialise', 400, 12)]
    return _histcheck.run(shard, tier, seed, PROPERTY, cores, halos, PROPS, shrink_per_presig=6)


def run_leafclasses():
    """classes whose type has no content model (simple, simple-content and empty types): a child offered to a checked element
    of such a class is either refused, or it is a child like any other (both views, parent link, exactly once in the output)"""
    import xml.etree.ElementTree as ET
    from .. import lib, hist
    viol = []
    evals = 0
    refused = 0
    for cn, cls in sorted(lib.CLASSES.items()):
        t = lib.xsd_type_name(cls)
        if t in ref.DFAS:
            continue
        for s in ('voice', 'pitch', 'words', ref.ELEMENT_NAMES[evals % len(ref.ELEMENT_NAMES)]):
            r = lib.call(lambda: lib.make(cls, check=True, with_required=True))
            if r[0] == 'exc':
                break
            e = r[1]
            k = lib.make(lib.child_cls(s))
            evals += 1
            r = lib.call(e.add_child, k)
            live = [k] if r[0] == 'ok' else []
            refused += r[0] == 'exc'
            v = hist.c06_invariants(e, live, [] if live else [k])
            if v is None and live:
                r = lib.call(e.to_string)
                if r[0] == 'ok':
                    tags = [c.tag for c in ET.fromstring(r[1])]
                    if tags != [s]:
                        v = ('output-count', {'output': tags, 'model': [s]})
            if v:
                viol.append({'sig': {'kind': v[0], 'mech': 'child-of-an-element-without-content-model'},
                             'case': {'cls': cn, 'child': s}, 'detail': v[1]})
    return {'evaluations': evals, 'distinct_nontrivial': evals, 'violations': viol, 'samples': [],
            'counters': {'leafclass_offers': evals, 'leafclass_offers_refused': refused}}


def run_twice():
    """the same child object offered twice: where the second offer is accepted too (unbounded leaves), a single remove() takes
    ONE occurrence away: whatever the library makes of such a child otherwise, the two views must stay permutations of each
    other and the output must show as many children as the views hold (only this part of the invariant is judged here)"""
    import collections
    import xml.etree.ElementTree as ET
    from .. import lib
    viol = []
    evals = 0
    accepted = 0
    for t in sorted(ref.DFAS):
        cls = lib.TYPES[t]
        for s in ref.DFAS[t].alphabet:
            for how in ('remove', 'dot-none'):
                e = lib.make(cls, check=True, with_required=True)
                k = lib.make(lib.child_cls(s))
                if lib.call(e.add_child, k)[0] == 'exc' or lib.call(e.add_child, k)[0] == 'exc':
                    continue
                evals += 1
                accepted += 1
                r = lib.call(e.remove, k) if how == 'remove' else lib.call(setattr, e, 'xml_' + s.replace('-', '_'), None)
                o, u = e.get_children(True), e.get_children(False)
                bad = None
                if collections.Counter(map(id, o)) != collections.Counter(map(id, u)):
                    bad = ('views-differ', {'ordered': [c.name for c in o], 'insertion': [c.name for c in u]})
                else:
                    rs = lib.call(e.to_string)
                    if rs[0] == 'ok' and len(list(ET.fromstring(rs[1]))) != len(o):
                        bad = ('output-count', {'output': [c.tag for c in ET.fromstring(rs[1])], 'views': [c.name for c in o]})
                if bad:
                    viol.append({'sig': {'kind': bad[0], 'mech': 'same-object-added-twice', 'how': how,
                                         'removal': 'ok' if r[0] == 'ok' else type(r[1]).__name__},
                                 'case': {'twice': t, 'child': s, 'how': how}, 'detail': bad[1]})
    return {'evaluations': evals, 'distinct_nontrivial': evals, 'violations': viol, 'samples': [],
            'counters': {'same_object_accepted_twice': accepted}}


def replay_case(rp):
    if 'twice' in rp['case']:
        res = run_twice()
        mine = [x for x in res['violations'] if x['case'] == rp['case']]
        return {'violated': bool(mine), 'violations': [m['sig'] for m in mine]}
    if 'cls' in rp['case']:
        res = run_leafclasses()
        mine = [x for x in res['violations'] if x['case'] == rp['case']]
        return {'violated': bool(mine), 'violations': [m['sig'] for m in mine]}
    if 'hist' not in rp['case']:
        res = _histcheck.run_repo_tests(PROPERTY)
        return {'violated': bool(res['violations']), 'violations': res['violations'][:3]}
    return _histcheck.replay_case(rp, PROPERTY, PROPS)
