"""C11 - removing a child restores the behaviour the element had without it.\n\nMonitor: M-twin: after a history with removals the element is compared with a fresh element given only the survivors in the same relative order (verdict/text, schema order, acceptance vector). A twin that refuses a survivor makes the case inconclusive (counted)."""
from .. import ref, genhist
from . import _histcheck

PROPERTY = 'C11'
LEVEL = 'exploration'
RULE = ('per element-content type (each core also once with children that carry an explicit value_=None): core = every valid word <=3, a transition cover and short pumped words with each child in turn removed and a child of the same name added again; every sequence of <=2 additions (thorough <=3 for alphabets <=10) followed by the removal of each child, every [addition, removal, addition], and every <=1 addition followed by xml_x = None; halo = seeded removal-heavy histories (add / remove / xml_x = None only, removals at every position). Only histories whose operations all succeed and contain a removal are judged. distinct = distinct operation string')
ASSUMPTIONS = ['reference DFAs built from /verif/ref/musicxml_4_0.xsd are the schema (self-tested, cross-checked by C03)', 'children are minimal unchecked instances so only the parent level is judged; parents carry their schema-required attributes', 'witnesses are shrunk by delta debugging before classification; beyond a fixed number per pre-signature they are only counted']
TIMEOUT = {'quick': 900, 'thorough': 5400}
PROPS = ('C11',)


def plan(tier, seed):
    return [dict(sh, vnone=True) for sh in _histcheck.plan(
        lambda t: (genhist.n_core_additions(t, 2) + 200) * max(1, len(ref.DFAS[t].alphabet) // 3))] + _histcheck.plan(lambda t: (genhist.n_core_additions(t, 2) * 2 + 400) * max(1, len(ref.DFAS[t].alphabet) // 3))


def run_shard(shard, tier, seed):
    t = shard['type']
    n = genhist.nadd_for(t, tier)
    m = 1 if tier == 'quick' else 2
    if shard.get('vnone'):
        # the same removal cores with children that carry an explicit value_=None (legal for every class without character
        # content, serialised like the default): removal by xml_x = None and by remove() must not care
        return _histcheck.run(shard, tier, seed, PROPERTY, [genhist.core_mixed(t, 1, ('set', 'rm')), genhist.core_remove_then_add(t)],
                              [('removal', 10, 8)] if tier == 'quick' else [('removal', 300, 12)], PROPS, shrink_per_presig=2,
                              child_value_none=True)
    cores = [genhist.core_remove_and_restore(t, tier), genhist.core_remove_then_add(t), genhist.core_removals(t, 2 if tier == 'quick' or len(ref.DFAS[t].alphabet) > 10 else 3), genhist.core_mixed(t, 1, ('set',))]
    halos = [('removal', 70, 10)] if tier == 'quick' else [('removal', 2500, 14)]
    return _histcheck.run(shard, tier, seed, PROPERTY, cores, halos, PROPS, shrink_per_presig=3)


def replay_case(rp):
    return _histcheck.replay_case(rp, PROPERTY, PROPS)
