"""C02 — schema-valid child sequences are accepted and kept in document order.

Monitor: API recorder around add_child / get_children / to_string.  Oracle: the word itself, certified
by the reference DFA.  Workload: all words <= L, a transition cover, seeded pumped random walks.
"""
import random
import xml.etree.ElementTree as ET

from .. import ref

PROPERTY = 'C02'
LEVEL = 'exploration'
RULE = ('per element-content type: every word of the reference language up to length L (L=2 quick, 3 thorough; '
        '4 for alphabets <= 8 in thorough), one accepted word per DFA edge (transition cover), and seeded random '
        'accepted walks (<= 40 symbols) that re-enter loops, and long runs (every distinct shortest cycle of the '
        'reference automaton repeated to about 70 / 160 symbols, thorough 400 as well); a case is one word supplied left to right to a fresh '
        'checked element, serialised with intelligent_choice off and on (same text required); non-trivial = non-empty word; distinct = distinct (type, word)')
ASSUMPTIONS = ['reference DFAs built from /verif/ref/musicxml_4_0.xsd are the schema (self-tested, cross-checked by C03)',
               'children are minimal unchecked instances so only the parent level is judged',
               'parents get their schema-required attributes from the reference table']
TIMEOUT = {'quick': 600, 'thorough': 3000}
CORE_LEN = {'quick': 2, 'thorough': 3}


def plan(tier, seed):
    shards = []
    for t in sorted(ref.DFAS):
        d = ref.DFAS[t]
        n = len(d.words(CORE_LEN[tier]))
        shards.append({'type': t, 'cost': n + 50})
    return shards


def run_word(cls, word):
    """returns None if the property held for this word, else (kind, detail)"""
    from .. import lib
    e = lib.make(cls, check=True, with_required=True)
    kids = []
    for i, s in enumerate(word):
        k = lib.make(lib.child_cls(s))
        r = lib.call(e.add_child, k)
        if r[0] == 'exc':
            return ('rejected-valid', {'at': i, 'symbol': s, 'exc': type(r[1]).__name__,
                                      'class': lib.classify_exception(r[1])})
        kids.append(k)
    got = lib.names(e)
    if got != list(word):
        return ('order', {'got': got})
    if [id(c) for c in e.get_children()] != [id(k) for k in kids]:
        return ('same-name-order', {'got': got})
    v = lib.verdict(e)
    if v[0] != 'ok':
        return ('final-check', {'verdict': list(v)})
    try:
        out = [c.tag for c in ET.fromstring(v[1])]
    except ET.ParseError as err:
        return ('output-unparsable', {'err': str(err)})
    if out != list(word):
        return ('output-order', {'got': out})
    # the other form of the final check: a valid, complete element needs no re-arrangement, so to_string(intelligent_choice=True)
    # must return the same text
    r = lib.call(e.to_string, True)
    if r[0] == 'exc':
        return ('final-check-intelligent-choice', {'exc': type(r[1]).__name__, 'msg': str(r[1])[:120]})
    if r[1] != v[1]:
        return ('output-order-intelligent-choice', {'got': [c.tag for c in ET.fromstring(r[1])]})
    return None


def shrink_word(cls, d, word, kind):
    """delta debugging: drop chunks (halves, quarters, ... single symbols) while the word stays valid and the result keeps its
    kind; long pumped words lose whole repetitions first"""
    word = list(word)
    size = max(1, len(word) // 2)
    while True:
        i = 0
        progress = False
        while i < len(word):
            w2 = word[:i] + word[i + size:]
            if d.accepts(w2):
                r = run_word(cls, w2)
                if r is not None and r[0] == kind:
                    word = w2
                    progress = True
                    continue
            i += size
        if size == 1:
            if not progress:
                break
        else:
            size = max(1, size // 2)
    return word


CORE_WORD = 2        # witnesses of at most this many symbols are judged by exact word (enumerated in both tiers)


def make_violation(t, word, res):
    kind, detail = res
    sig = {'type': t, 'kind': kind}
    if 'exc' in detail:
        sig['exc'] = detail['exc']
    if len(word) <= CORE_WORD:
        sig['layer'] = 'core'
        sig['word'] = ','.join(word)
    else:
        sig['layer'] = 'halo'
        sig['symbols'] = sorted(set(word))
    return {'sig': sig, 'case': {'type': t, 'word': list(word)}, 'detail': detail}


def run_shard(shard, tier, seed):
    from .. import lib
    t = shard['type']
    d = ref.DFAS[t]
    cls = lib.TYPES[t]
    L = CORE_LEN[tier]
    if tier == 'thorough' and len(d.alphabet) <= 8:
        L = 4
    core = d.words(L)
    cover = d.transition_cover()
    rnd = random.Random('%s:C02:%s' % (seed, t))
    nwalk = 30 if tier == 'quick' else 400
    walks = [d.random_word(rnd, maxlen=rnd.choice([6, 12, 40])) for _ in range(nwalk)]
    # long runs: every distinct shortest cycle of the reference automaton repeated to ~70 / ~160 symbols (thorough: ~400 too).
    # Bounded occurrence counts (beam <= 8, ...) are part of the automaton, so these words are valid by construction
    pumped = d.pumped_words((70, 160) if tier == 'quick' else (70, 160, 400))
    if len(pumped) > (24 if tier == 'quick' else 120):
        pumped = rnd.sample(pumped, 24 if tier == 'quick' else 120)
    seen = set()
    viol = []
    evals = 0
    states = set(); edges = set()
    lib.COVERAGE.start(); lib.STEPS.start()
    max_steps = 0
    for layer, ws in (('core', core), ('cover', cover), ('walk', walks), ('pumped', pumped)):
        for w in ws:
            w = tuple(w)
            if (w in seen) or not d.accepts(w):
                continue
            seen.add(w)
            evals += 1
            S = d.start; states.add(S)
            for s in w:
                T = d.trans[(S, s)]; edges.add((S, s)); states.add(T); S = T
            lib.STEPS.begin(budget=5_000_000 if layer != 'pumped' else 200_000_000)
            res = run_word(cls, w)
            max_steps = max(max_steps, lib.STEPS.end())
            if res is None:
                continue
            if len(w) > CORE_WORD:
                w2 = shrink_word(cls, d, w, res[0])
                res = run_word(cls, w2) or res
                w = w2
            viol.append(make_violation(t, w, res))
    lib.COVERAGE.stop(); lib.STEPS.stop()
    return {'evaluations': evals, 'distinct_nontrivial': len([w for w in seen if w]), 'violations': viol,
            'samples': [{'type': t, 'word': list(w)} for w in list(seen)[:2]],
            'counters': {'core_words': len(core), 'cover_words': len(cover), 'walks': len(walks), 'pumped_words': len(pumped),
                         'longest_word': max([len(w) for w in seen] or [0]),
                         'ref_states_visited': len(states), 'ref_states_total': len(d.live),
                         'ref_edges_visited': len(edges), 'ref_edges_total': len(d.edges()),
                         'stdio_events': len(lib.STDIO_EVENTS)},
            'lines': sorted(lib.COVERAGE.lines), 'raises': dict(lib.COVERAGE.raises), 'max_steps': max_steps,
            'exhaustive': True}


def replay_case(rp):
    from .. import lib
    c = rp['case']
    res = run_word(lib.TYPES[c['type']], c['word'])
    return {'violated': res is not None, 'result': res}
