"""C10 - a failed operation changes nothing.\n\nMonitors: in-place snapshot (both views, attributes, value) around every raising call; M-twin: the history with the failed operations left out must reach an observably identical element (views, verdict/text, acceptance vector, status of every later operation)."""
from .. import ref, genhist
from . import _histcheck

PROPERTY = 'C10'
LEVEL = 'exploration'
RULE = ('per element-content type: core = every <=1 addition (thorough <=2 for alphabets <=10) followed by one removal / replacement (own and foreign name, by object and by predicate) / forward addition (valid, past the maximum, out of range, negative) / shortcut / serialisation, and every sequence of <=2 additions (<=3 for alphabets <=12; failures at maxOccurs, exclusive choices, after duplication); halo = failure-biased seeded histories. Only histories in which some operation raised are judged (others count as trivial). distinct = distinct operation string')
ASSUMPTIONS = ['reference DFAs built from /verif/ref/musicxml_4_0.xsd are the schema (self-tested, cross-checked by C03)', 'children are minimal unchecked instances so only the parent level is judged; parents carry their schema-required attributes', 'witnesses are shrunk by delta debugging before classification; beyond a fixed number per pre-signature they are only counted']
TIMEOUT = {'quick': 900, 'thorough': 5400}
PROPS = ('C10',)


def plan(tier, seed):
    return _histcheck.plan(lambda t: (genhist.n_core_additions(t, 2) + genhist.n_core_mixed(t, 1 if tier == 'quick' or len(ref.DFAS[t].alphabet) > 10 else 2) + 400) * max(1, len(ref.DFAS[t].alphabet) // 3))


def run_shard(shard, tier, seed):
    t = shard['type']
    n = genhist.nadd_for(t, tier)
    m = 1 if tier == 'quick' or len(ref.DFAS[t].alphabet) > 10 else 2
    cores = [genhist.core_mixed(t, m), genhist.core_additions(t, min(n, 3 if len(ref.DFAS[t].alphabet) <= (6 if tier == 'quick' else 12) else 2))]
    halos = [('failure', 60, 10), ('mixed', 20, 10), ('serialise', 16, 8)] if tier == 'quick' else [('failure', 600, 14), ('mixed', 300, 12), ('serialise', 200, 10)]
    return _histcheck.run(shard, tier, seed, PROPERTY, cores, halos, PROPS, shrink_per_presig=3)


def replay_case(rp):
    return _histcheck.replay_case(rp, PROPERTY, PROPS)
