"""C10 - a failed operation changes nothing.\n\nMonitors: in-place snapshot (both views, attributes, value) around every raising call; M-twin: the history with the failed operations left out must reach an observably identical element (views, verdict/text, acceptance vector, status of every later operation)."""
from .. import ref, genhist
from . import _histcheck

PROPERTY = 'C10'
LEVEL = 'exploration'
RULE = ('per element-content type: core = every <=1 addition (thorough <=2 for alphabets <=10) (and every [addition, serialisation with either flag, one change of that child, serialisation]) followed by one removal / replacement (own and foreign name, by object and by predicate) / forward addition (valid, past the maximum, out of range, negative) / shortcut / serialisation, and every sequence of <=2 additions (<=3 for alphabets <=12; failures at maxOccurs, exclusive choices, after duplication); halo = failure-biased seeded histories. Plus, for every element class, refused value_ and attribute assignments (objects, containers, out-of-space strings and numbers) bracketed by snapshots of value, attributes and serialisation; and for every type, every word <=2 and a shortest valid word: each child, while attached to the receiver itself or to another element, offered again (add_child, forward 0 / 1 / 7, xml_ shortcut): a refusal must leave receiver, holder and parent link as they were. Only histories in which some operation raised are judged (others count as trivial). distinct = distinct operation string')
ASSUMPTIONS = ['reference DFAs built from /verif/ref/musicxml_4_0.xsd are the schema (self-tested, cross-checked by C03)', 'children are minimal unchecked instances so only the parent level is judged; parents carry their schema-required attributes', 'witnesses are shrunk by delta debugging before classification; beyond a fixed number per pre-signature they are only counted']
TIMEOUT = {'quick': 900, 'thorough': 5400}
PROPS = ('C10',)
NATT = 24


def plan(tier, seed):
    return [{'mode': 'assign', 'slice': i, 'cost': 2000} for i in range(4)] + \
        [{'mode': 'attached', 'slice': i, 'cost': 1500} for i in range(NATT)] + _histcheck.plan(lambda t: (genhist.n_core_additions(t, 2) + genhist.n_core_mixed(t, 1 if tier == 'quick' or len(ref.DFAS[t].alphabet) > 10 else 2) + 400) * max(1, len(ref.DFAS[t].alphabet) // 3))


def run_assign(shard, tier, seed):
    """a refused value or attribute assignment must leave value, attributes and serialisation as they were"""
    import collections
    from .. import lib
    viol = []
    evals = 0
    nontriv = 0
    c = collections.Counter()
    classes = sorted(lib.CLASSES.items())
    for cn, cls in [x for i, x in enumerate(classes) if i % 4 == shard['slice']]:
        t = lib.xsd_type_name(cls)
        r = lib.call(lambda: lib.make(cls, check=False, with_required=True))
        if r[0] == 'exc':
            continue
        e = r[1]
        # give it one optional attribute too, where possible
        if t in ref.ALL:
            for an, at, req in ref.attr_table(t):
                if at is None or an == 'name' or req:
                    continue
                forms = [f for f in ref.valid_forms(at) if ref.valid(at, f) and f == f.strip() and f]
                done = False
                for f in forms[:2]:
                    for pv in lib.py_candidates(f)[::-1]:
                        if lib.call(setattr, e, an.replace('-', '_'), pv)[0] == 'ok':
                            done = True
                            break
                    if done:
                        break
                if done:
                    break

        def state():
            s_ = lib.call(e.to_string)
            return (repr(e.value_), sorted((k, repr(v)) for k, v in e.attributes.items()), s_[1] if s_[0] == 'ok' else type(s_[1]).__name__)
        for what, key, bads in [('value', 'value_', [None, object(), [], {'a': 1}, b'x', 'x' * 3 + '\x00no', -987654321.5, '@@bad@@', None])] + \
                [('attribute', an.replace('-', '_'), [object(), [], '@@bad@@', -987654321.5])
                 for an, at, req in (ref.attr_table(t) if t in ref.ALL else ()) if at is not None and an != 'name'][:6]:
            for bad in bads:
                before = state()
                rr = lib.call(setattr, e, key, bad)
                evals += 1
                if rr[0] == 'ok':
                    # accepted (e.g. any string for xs:string): put the old state back through the API and go on
                    e = lib.make(cls, check=False, with_required=True)
                    continue
                nontriv += 1
                c['refused_assignments'] += 1
                after = state()
                if after != before:
                    diff = [n for n, a, b in zip(('value', 'attributes', 'serialisation'), before, after) if a != b]
                    viol.append({'sig': {'type': t, 'kind': 'refused-%s-assignment-changed:%s' % (what, '+'.join(diff)),
                                         'exc': type(rr[1]).__name__},
                                 'case': {'cls': cn, 'assign': key, 'bad': repr(bad)[:40]},
                                 'detail': {'before': [str(x)[:80] for x in before], 'after': [str(x)[:80] for x in after]}})
                    e = lib.make(cls, check=False, with_required=True)
    return {'evaluations': evals, 'distinct_nontrivial': nontriv, 'violations': viol,
            'samples': [{'class': 'XMLOctave', 'assign': 'value_', 'bad': "'@@bad@@'"}], 'counters': dict(c)}


def run_attached(shard, tier, seed):
    """a child that is ALREADY attached (to the receiving element itself, or to another element) is offered with add_child /
    add_child(forward=) / the xml_ shortcut: where the call raises, the receiver and the element that holds the child must be
    as they were (views, parent link, serialisation or verdict). Calls that are accepted are outside this shard (counted)."""
    import collections
    from .. import lib, hist
    viol = []
    evals = 0
    nontriv = 0
    c = collections.Counter()
    types = sorted(ref.DFAS)

    def state(e):
        return (hist.snapshot(e), lib.verdict(e), tuple(id(k.get_parent()) for k in e.get_children(False)))

    def build(cls, w):
        e = lib.make(cls, check=True, with_required=True)
        kids = []
        for s_ in w:
            k = lib.make(lib.child_cls(s_))
            if lib.call(e.add_child, k)[0] == 'exc':
                return None, None
            kids.append(k)
        return e, kids
    for t in [x for i, x in enumerate(types) if i % NATT == shard['slice']]:
        d = ref.DFAS[t]
        cls = lib.TYPES[t]
        words = [w for w in d.words(2, limit=60 if tier == 'quick' else 400) if w]
        if ref.shortest_word(t):
            words.append(tuple(ref.shortest_word(t)))
        seen = set()
        for w in words:
            if w in seen:
                continue
            seen.add(w)
            for i in range(len(w)):
                for how in ('add', 'add-forward-0', 'add-forward-1', 'add-forward-7', 'shortcut'):
                    for holder in ('self', 'other'):
                        R, kids = build(cls, w)
                        if R is None:
                            break
                        if holder == 'other':
                            # the child sits in ANOTHER element of the same class; the receiver holds the same word
                            D = R
                            R, _ = build(cls, w)
                            if R is None:
                                break
                        else:
                            D = R
                        k = kids[i]
                        before_R, before_D = state(R), state(D)
                        evals += 1
                        if how == 'shortcut':
                            r = lib.call(setattr, R, 'xml_' + k.name.replace('-', '_'), k)
                        elif how == 'add':
                            r = lib.call(R.add_child, k)
                        else:
                            r = lib.call(R.add_child, k, int(how.rsplit('-', 1)[1]))
                        if r[0] == 'ok':
                            c['attached_child_accepted'] += 1
                            # the child is now listed twice (by two elements, or twice by one). One listing is removed again;
                            # whatever the library makes of a replacement through the other listing, if that call RAISES the
                            # element it was called on must be as before the call
                            if how == 'add' and lib.call(R.remove, k)[0] == 'ok':
                                before_D = state(D)
                                new = lib.make(lib.child_cls(k.name))
                                for form in ('object', 'predicate'):
                                    r3 = lib.call(D.replace_child, k, new) if form == 'object' else \
                                        lib.call(D.replace_child, (lambda ch, _k=k: ch is _k), new)
                                    evals += 1
                                    if r3[0] == 'ok':
                                        break
                                    nontriv += 1
                                    c['replacement_through_stale_listing_refused'] += 1
                                    if state(D) != before_D:
                                        viol.append({'sig': {'type': t, 'kind': 'refused-replacement-through-stale-listing-changed-the-element',
                                                             'held_by': holder, 'exc': type(r3[1]).__name__},
                                                     'case': {'type': t, 'word': list(w), 'child': i, 'how': how, 'holder': holder},
                                                     'detail': {'msg': str(r3[1])[:120], 'form': form}})
                                        break
                            continue
                        nontriv += 1
                        c['attached_child_refused'] += 1
                        what = []
                        if state(R) != before_R:
                            what.append('receiver')
                        if D is not R and state(D) != before_D:
                            what.append('holder')
                        if k.get_parent() is not D:
                            what.append('parent-link')
                        if what:
                            viol.append({'sig': {'type': t, 'kind': 'refused-offer-of-attached-child-changed:' + '+'.join(what),
                                                 'how': how.split('-')[0], 'held_by': holder, 'exc': type(r[1]).__name__},
                                         'case': {'type': t, 'word': list(w), 'child': i, 'how': how, 'holder': holder},
                                         'detail': {'msg': str(r[1])[:120]}})
    return {'evaluations': evals, 'distinct_nontrivial': nontriv, 'violations': viol,
            'samples': [{'type': 'pitch', 'word': ['step', 'octave'], 'offered': 'own child step, forward=1'}], 'counters': dict(c)}


def run_shard(shard, tier, seed):
    if shard.get('mode') == 'assign':
        return run_assign(shard, tier, seed)
    if shard.get('mode') == 'attached':
        return run_attached(shard, tier, seed)
    t = shard['type']
    n = genhist.nadd_for(t, tier)
    m = 1 if tier == 'quick' or len(ref.DFAS[t].alphabet) > 10 else 2
    cores = [genhist.core_str_then_change(t), genhist.core_mixed(t, m), genhist.core_additions(t, min(n, 3 if len(ref.DFAS[t].alphabet) <= (6 if tier == 'quick' else 12) else 2))]
    halos = [('failure', 60, 10), ('mixed', 20, 10), ('serialise', 16, 8)] if tier == 'quick' else [('failure', 600, 14), ('mixed', 300, 12), ('serialise', 200, 10)]
    return _histcheck.run(shard, tier, seed, PROPERTY, cores, halos, PROPS, shrink_per_presig=3)


def replay_case(rp):
    if 'holder' in rp['case']:
        res = run_attached({'slice': sorted(ref.DFAS).index(rp['case']['type']) % NATT}, 'quick', 0)
        mine = [v for v in res['violations'] if v['case'] == rp['case']]
        return {'violated': bool(mine), 'violations': [m['sig'] for m in mine[:3]]}
    if 'assign' in rp['case']:
        from .. import lib
        res = run_assign({'slice': sorted(lib.CLASSES).index(rp['case']['cls']) % 4}, 'quick', 0)
        mine = [v for v in res['violations'] if v['case']['cls'] == rp['case']['cls']]
        return {'violated': bool(mine), 'violations': [m['sig'] for m in mine[:3]]}
    return _histcheck.replay_case(rp, PROPERTY, PROPS)
