"""C08 — the library's own output re-parses to the same document.

Monitor: infoset comparator over write()/to_string() output and parse_musicxml(...).to_string().
Oracle: xml.etree infosets, numeric tolerance driven by the reference type of each element / attribute.
"""
import collections
import random
import xml.etree.ElementTree as ET

from .. import ref, docs

PROPERTY = 'C08'
LEVEL = 'exploration'
RULE = ('documents generated from the reference grammar (schema-valid by construction, certified by the reference '
        'validator), built through the API in document order with Python values typed from the reference model, half of them with markup characters (& < > quotes) in string-typed attribute values and text: (i) whole '
        'score-partwise documents written with write(); (ii) for every element name, small documents rooted at that '
        'element, written as declaration + to_string(). Each is parsed back with parse_musicxml, re-serialised, compared as '
        'an infoset (decimal spelling of decimal-typed content is the only tolerated difference), round-tripped a second '
        'time (byte identity) and its parsed values are checked for numeric equality and integer-ness; (iii) large '
        'scores (70 KB - 1 MB) dense in 2-, 3- and 4-byte UTF-8 characters, built once and re-written with the title padded so '
        'that a multi-byte character straddles each power-of-two offset from 64 KiB up exactly (4 KiB multiples are '
        'straddled by chance; counters say how often). Documents the '
        'builder refuses are inconclusive (counted), not violations. non-trivial = accepted by the builder; distinct = '
        'distinct serialisation text')
ASSUMPTIONS = ['documents the API refuses (C02 / attribute defects) are outside C08 and counted as inconclusive',
               'reference types decide where a numeric spelling difference is tolerated']
TIMEOUT = {'quick': 600, 'thorough': 3000}
NSHARDS = 16


def plan(tier, seed):
    return [{'slice': i, 'cost': 1} for i in range(NSHARDS)]


def sig_of(kind, name, diff=None, exc=None):
    s = {'kind': kind, 'element': name}
    if exc:
        s['exc'] = exc
    if diff:
        d = diff[0]
        s['what'] = d[1]
        cause = None
        if d[1] in ('text', 'attribute-value'):
            a, b = (d[2], d[3]) if d[1] == 'text' else (d[3], d[4])
            cause = diff_cause(a, b)
        if cause:
            # a recognised mechanism: keyed by mechanism, not by where it happened to show up
            s['cause'] = cause
            s.pop('element')
        else:
            s['at'] = d[0].split('/')[-1]
            if d[1] in ('attribute-set', 'attribute-value'):
                s['attr'] = d[2]
    return s


diff_cause = docs.diff_cause


def check_doc(et_doc, lib, tmp, use_write, viol, c, obj=None):
    """returns 'inconclusive' | 'ok' | 'violated'"""
    from musicxml.parser.parser import parse_musicxml
    if obj is None:
        try:
            obj = docs.build_api(et_doc, lib, check=True)
        except docs.BuildRefused as e:
            c['builder_refused'] += 1
            c['builder_refused:' + type(e.exc).__name__] += 1
            return 'inconclusive'
    if use_write:
        r = lib.call(obj.write, tmp.name)
        if r[0] == 'exc':
            c['library_refused_to_emit'] += 1
            return 'inconclusive'
        raw = tmp.read_bytes()
        if len(raw) > 50000:
            c['_last_written'] = raw
        try:
            text1 = raw.decode('utf-8')
        except UnicodeDecodeError as err:
            viol.append({'sig': sig_of('written-file-is-not-utf-8', et_doc.tag, exc='UnicodeDecodeError'),
                         'case': {'root': et_doc.tag, 'text': raw[:2000].decode('utf-8', 'replace')}, 'detail': {'msg': str(err)[:160]}})
            return 'violated'
    else:
        r = lib.call(obj.to_string)
        if r[0] == 'exc':
            c['library_refused_to_emit'] += 1
            return 'inconclusive'
        text1 = docs.DECL + r[1]
        tmp.write(text1)
    name = et_doc.tag
    case = {'root': name, 'text': text1[:4000]}
    r = lib.call(parse_musicxml, tmp.name)
    if r[0] == 'exc':
        # localise: which element of the document cannot be re-read?
        viol.append({'sig': sig_of('reparse-raises', name, exc=type(r[1]).__name__), 'case': case,
                     'detail': {'msg': str(r[1])[:200], 'site': lib.raise_site(r[1])}})
        return 'violated'
    t2 = r[1]
    r = lib.call(t2.to_string)
    if r[0] == 'exc':
        viol.append({'sig': sig_of('reserialise-raises', name, exc=type(r[1]).__name__), 'case': case,
                     'detail': {'msg': str(r[1])[:200]}})
        return 'violated'
    s2 = r[1]
    a = ET.fromstring(text1.split('?>', 1)[1])
    b = ET.fromstring(s2)
    d = docs.infoset_diff(a, b, limit=12)
    bad = False
    seen_sigs = set()
    for one in d:
        sg = sig_of('infoset-differs', name, [one])
        key = repr(sorted(sg.items()))
        if key in seen_sigs:
            continue
        seen_sigs.add(key)
        viol.append({'sig': sg, 'case': case, 'detail': {'diff': [list(map(str, one))]}})
        bad = True
    # values keep their value and integer types stay integers
    stack = [(a, t2)]
    while stack:
        ea, eo = stack.pop()
        t = ref.eltype(ea.tag)
        sb = ref.simple_base(t) if t in ref.ALL else t
        if sb and ref.numeric_kinds(sb) == {'integer'} and (ea.text or '').strip():
            if not isinstance(eo.value_, int) or isinstance(eo.value_, bool):
                viol.append({'sig': {'kind': 'integer-became-' + type(eo.value_).__name__, 'element': ea.tag},
                             'case': case, 'detail': {'text': ea.text}})
                bad = True
        kids = eo.get_children()
        if len(kids) == len(ea):
            stack += list(zip(list(ea), kids))
    # second round trip must be byte-identical to the first re-serialisation
    tmp.write(docs.DECL + s2)
    r = lib.call(parse_musicxml, tmp.name)
    if r[0] == 'exc':
        viol.append({'sig': sig_of('second-reparse-raises', name, exc=type(r[1]).__name__), 'case': case, 'detail': {}})
        return 'violated'
    r3 = lib.call(r[1].to_string)
    if r3[0] == 'exc' or r3[1] != s2:
        viol.append({'sig': sig_of('second-round-trip-differs', name), 'case': case, 'detail': {}})
        bad = True
    return 'violated' if bad else 'ok'


MARKUP = ['a&b', 'x<y', 'p>q', 'say "hi"', "it's", 'https://example.org/i.png?id=7&size=2', '&amp;', '<![CDATA[x]]>', 'a & b < c',
          'two  blanks', 'line\nbreak', 'tab\tinside', 'Sonata  No. 1\n\tfor piano']


def spice(el, rnd, p=0.35):
    """markup characters in string-typed attribute values and text (what a writer must escape exactly once)"""
    n = 0
    for node in el.iter():
        t = ref.eltype(node.tag)
        if t in ref.ALL:
            for an, at, req in ref.attr_table(t):
                if an in node.attrib and at is not None and rnd.random() < p:
                    v = rnd.choice(MARKUP)
                    if ref.valid(at, v) and v == ' '.join(v.split()):   # attribute values are normalised by any XML parser
                        node.set(an, v)
                        n += 1
        sb = (ref.simple_base(t) if t in ref.ALL else t)
        if sb and not len(node) and rnd.random() < p:
            v = rnd.choice(MARKUP)
            if ref.valid(sb, v):
                node.text = v
                n += 1
    return n


ALPHABETS = {'greek': '\u03b1\u03b2\u03b3\u03b4\u03b5\u03b6\u03b7\u03b8', 'cjk': '\u97f3\u697d\u8b5c\u8868\u8a18\u6cd5',
             'emoji': '\U0001d11e\U0001d122\U0001f3b5\U0001f3b6', 'mixed': 'a\u00e9\u97f3\U0001d11e-\u03b2z'}


def large_score(measures, pad, alphabet):
    """a big, schema-valid score-partwise whose text is dense in multi-byte characters; deterministic in its arguments"""
    chars = ALPHABETS[alphabet]

    def txt(i, n):
        return ''.join(chars[(i * 7 + j * 3) % len(chars)] for j in range(n)) or 'x'
    root = ET.Element('score-partwise', {'version': '4.0'})
    ET.SubElement(ET.SubElement(root, 'work'), 'work-title').text = 'T' + 'p' * pad
    pl = ET.SubElement(root, 'part-list')
    sp = ET.SubElement(pl, 'score-part', {'id': 'P1'})
    ET.SubElement(sp, 'part-name').text = txt(1, 9)
    part = ET.SubElement(root, 'part', {'id': 'P1'})
    for m in range(measures):
        me = ET.SubElement(part, 'measure', {'number': str(m + 1)})
        if m % 5 == 0:
            d = ET.SubElement(me, 'direction', {'placement': 'above'})
            ET.SubElement(ET.SubElement(d, 'direction-type'), 'words', {'font-family': txt(m, 5)}).text = txt(m, 30)
        for k in range(4):
            n = ET.SubElement(me, 'note')
            pi = ET.SubElement(n, 'pitch')
            ET.SubElement(pi, 'step').text = 'CDEFGAB'[(m + k) % 7]
            ET.SubElement(pi, 'octave').text = str(3 + (m + k) % 3)
            ET.SubElement(n, 'duration').text = '1'
            ET.SubElement(n, 'type').text = 'quarter'
            ly = ET.SubElement(n, 'lyric', {'number': '1'})
            ET.SubElement(ly, 'syllabic').text = 'single'
            ET.SubElement(ly, 'text').text = txt(m * 4 + k, 25 + (m + k) % 11)
    return root


def run_shard(shard, tier, seed):
    from .. import lib
    viol = []
    c = collections.Counter()
    tmp = docs.TempFile('mxverif-c08-')
    evals = 0
    seen = set()
    samples = []
    covered = set()
    try:
        rnd = random.Random('%s:C08:%d' % (seed, shard['slice']))
        # (ii) small documents per element name
        names = [n for i, n in enumerate(ref.ELEMENT_NAMES) if i % NSHARDS == shard['slice']]
        per = 3 if tier == 'quick' else 25
        for n in names:
            for k in range(per):
                depth = (ref.HEIGHT[n] or 0) + rnd.choice([1, 2, 3])
                el = ref.gen_el(n, rnd, depth, {'pattr': rnd.choice([0.2, 0.5, 0.9]), 'maxkids': rnd.choice([3, 6])})
                if k % 2:
                    c['markup_values_placed'] += spice(el, rnd)
                if ref.validate_doc(el):
                    c['generator_produced_invalid'] += 1
                    continue
                evals += 1
                res = check_doc(el, lib, tmp, False, viol, c)
                c['docs_' + res] += 1
                if res != 'inconclusive':
                    key = ET.tostring(el)
                    if key not in seen:
                        seen.add(key)
                    covered |= {x.tag for x in el.iter()}
                    if len(samples) < 2:
                        samples.append({'root': n, 'elements': sum(1 for _ in el.iter()), 'result': res,
                                        'text': ET.tostring(el, encoding='unicode')[:300]})
        # (i) whole scores through write()
        nscores = 6 if tier == 'quick' else 80
        for k in range(nscores):
            el = ref.gen_el('score-partwise', rnd, rnd.choice([6, 7, 8]), {'pattr': 0.3, 'maxkids': 4,
                                                                          'skip_attrs': ('xml:lang', 'xml:space', 'name'),
                                                                          'skip_elements': ('link', 'opus', 'part-link',
                                                                                            'miscellaneous-field')})
            c['markup_values_placed'] += spice(el, rnd, 0.2)
            if ref.validate_doc(el):
                c['generator_produced_invalid'] += 1
                continue
            evals += 1
            res = check_doc(el, lib, tmp, True, viol, c)
            c['scores_' + res] += 1
            if res != 'inconclusive':
                seen.add(ET.tostring(el))
                covered |= {x.tag for x in el.iter()}
        # (iii) large documents dense in multi-byte characters. The object is built once per (alphabet, size); the padding of
        # the work title is then changed so that a multi-byte character straddles a chosen power-of-two offset exactly
        # (targets 64 KiB, 128 KiB, ...) besides the many 4 KiB multiples that are straddled by chance
        import zlib
        sl = shard['slice']
        combos = [(al, sz) for al in sorted(ALPHABETS) for sz in ((45, 100) if tier == 'quick' else (45, 100, 260, 700))]
        for al, sz in [x for i, x in enumerate(combos) if i % NSHARDS == sl]:
            el = large_score(sz, 0, al)
            if ref.validate_doc(el):
                c['generator_produced_invalid'] += 1
                continue
            try:
                obj = docs.build_api(el, lib, check=True)
            except docs.BuildRefused:
                c['builder_refused'] += 1
                continue
            title = obj.get_children()[0].get_children()[0]
            r = lib.call(obj.write, tmp.name)
            if r[0] == 'exc':
                c['library_refused_to_emit'] += 1
                continue
            data0 = tmp.read_bytes()
            pads = [0, 1, 2]
            for B in (1 << 16, 1 << 17, 1 << 18, 1 << 19, 1 << 20):
                if B < len(data0):
                    o = next((o for o in range(B - 1, 0, -1) if data0[o] >= 0xC0), None)
                    if o is not None and B - 1 - o < 4000:
                        pads.append(B - 1 - o)
            for pad in pads:
                title.value_ = 'T' + 'p' * pad
                el.find('work/work-title').text = 'T' + 'p' * pad
                evals += 1
                before = len(viol)
                res = check_doc(el, lib, tmp, True, viol, c, obj=obj)
                for x in viol[before:]:
                    x['case'] = {'large': {'measures': sz, 'pad': pad, 'alphabet': al}}
                c['large_' + res] += 1
                if res != 'inconclusive':
                    seen.add((al, sz, pad))
                    c['large_bytes_total'] += len(data0) + pad
                    data = c.pop('_last_written')
                    c['large_multibyte_straddles_4k'] += sum(1 for o in range(4096, len(data), 4096) if data[o] & 0xC0 == 0x80)
                    c['large_multibyte_straddles_64k'] += sum(1 for o in range(65536, len(data), 65536) if data[o] & 0xC0 == 0x80)
    finally:
        tmp.close()
    return {'evaluations': evals, 'distinct_nontrivial': len(seen), 'violations': viol, 'samples': samples,
            'counters': dict(c, stdio_events=len(lib.STDIO_EVENTS)), 'covered': sorted(covered)}


def aggregate(results, tier, seed):
    from ..engine import default_aggregate
    agg = default_aggregate(results)
    cov = set()
    for r in results:
        cov |= set(r.get('covered', []))
    agg['counters']['element_names_round_tripped'] = len(cov)
    agg['counters']['element_names_total'] = len(ref.ELEMENT_NAMES)
    agg['notes'] = 'element names never inside an accepted document: %s' % sorted(set(ref.ELEMENT_NAMES) - cov)[:40]
    return agg


def replay_case(rp):
    from .. import lib
    if 'large' in rp['case']:
        el = large_score(**rp['case']['large'])
    else:
        text = rp['case']['text']
        el = ET.fromstring(text.split('?>', 1)[1])
    viol = []
    tmp = docs.TempFile('mxverif-c08-')
    try:
        res = check_doc(el, lib, tmp, 'large' in rp['case'], viol, collections.Counter())
    finally:
        tmp.close()
    return {'violated': res == 'violated', 'result': res, 'violations': [v['sig'] for v in viol]}
