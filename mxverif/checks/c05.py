"""C05 — value validation matches the XSD simple types; emitted text is lexically valid.

Monitor: API recorder around XSDSimpleType*(v), XMLx(v), x.value_ = v, attribute assignment and to_string.
Oracle: reference lexical validator (both directions); usage map from the reference schema.
"""
import collections
import math
import xml.etree.ElementTree as ET

from .. import ref

PROPERTY = 'C05'
LEVEL = 'exploration'
RULE = ('every simple type (145 MusicXML + the XML Schema built-ins the schema uses + the six of xml.xsd) x a pool of lexical '
        'forms (every enumeration literal of every type, boundary and off-by-one numbers, pattern positives and near '
        'misses, whitespace variants, unusual numeric spellings), each offered as str and, where it spells a number, as '
        'int and float, plus a float/bool/non-finite battery on every type; through the public XSDSimpleType* classes, '
        'through one carrying element and one carrying attribute per type (every carrier in thorough); plus non-empty '
        'text offered to every element class whose type has no character content. An evaluation is one (type, value, '
        'route); non-trivial = the library accepted (emitted text is judged) or the reference says valid (acceptance is '
        'judged); distinct by construction')
ASSUMPTIONS = ['reference lexical validator built from /verif/ref; xs:language, NMTOKEN, Name, NCName, ID, IDREF modelled from '
               'the repository-independent copy of xml.xsd, as the property says',
               'direction (b) demands acceptance only when every natural spelling (str, int, float) of a normalised valid '
               'form is rejected',
               'emitted text of a value is str(value), which is what the library writes']
TIMEOUT = {'quick': 600, 'thorough': 2400}
NSHARDS = 16
BATTERY = [1e-05, 1e-7, 1e22, 1.5e300, float('nan'), float('inf'), float('-inf'), -0.0, True, False, 10 ** 30,
           0.1 + 0.2, 1e16, 123456789012345678]


def plan(tier, seed):
    # the two whole-list shards use every type class in one process, in opposite orders: a validation table cached on a
    # base class by whichever type is used first shows up in one of them
    return [{'slice': i, 'cost': 1} for i in range(NSHARDS)] + [{'slice': 'no-text', 'cost': 1},
                                                              {'slice': 'all-sorted', 'cost': 2, 'fresh_process': True}, {'slice': 'all-reversed', 'cost': 2, 'fresh_process': True}]


def all_types():
    return sorted(ref.stypes) + sorted(ref.xml_stypes) + sorted(ref.BUILTIN)


def pool():
    forms = set()
    for t in all_types():
        for f in ref.valid_forms(t) + ref.invalid_forms(t):
            forms.add(f)
        for f in ref.enumeration(t):
            forms.add(f)
    for f in list(forms):
        if f and f == f.strip() and len(f) < 12:
            forms.add(' ' + f + ' ')
    forms |= {'', ' ', '\t', 'a  b', '1 2', '0', '1', '-1', '2', '100', '101', '0.5', '-0.5', '99.999', '100.001',
              '16', '17', '128', '129', '16384', '16385', '9', '10', '-180', '180', '180.5', '8', '+1', '01', '1.0', '1.',
              '.1', '1e5', '1E5', 'NaN', 'INF', '-INF', 'nan', 'inf', 'True', 'true', 'yes', 'no', 'Yes', '#FFFFFF',
              '#ffffff', '2021-01-01', '2021-02-30', 'x-y', 'A', 'H', 'é', 'a:b', '1a', '_a', 'lyricsX', 'coda', 'segno'}
    return sorted(forms)


def value_class(v):
    if isinstance(v, bool):
        return 'bool'
    if isinstance(v, float):
        if math.isnan(v) or math.isinf(v):
            return 'non-finite-float'
        if 'e' in repr(v):
            return 'float-scientific-repr'
        if v == int(v):
            return 'integral-float'
        return 'float'
    if isinstance(v, int):
        return 'int'
    if isinstance(v, str):
        if v != v.strip() or v == '' or v.isspace():
            return 'blank-or-padded-string'
        return 'string'
    return type(v).__name__


def carriers():
    """simple type -> ([element names typed by it directly or as simple content], [(element name, attribute name)])"""
    els = collections.defaultdict(list)
    attrs = collections.defaultdict(list)
    for n in ref.ELEMENT_NAMES:
        t = ref.eltype(n)
        if t in ref.ALL:
            sb = ref.simple_base(t)
            if sb:
                els[sb].append(n)
            for an, at, req in ref.attr_table(t):
                if at is not None:
                    attrs[at].append((n, an))
        else:
            els[t].append(n)
    return els, attrs


def run_shard(shard, tier, seed):
    from .. import lib
    import musicxml.xsd.xsdsimpletype as xs_
    viol = []
    evals = 0
    nontriv = 0
    samples = []
    c = collections.Counter()

    def v(kind, stype, via, value, detail=None, extra=None):
        sig = {'kind': kind, 'stype': stype, 'via': via, 'vclass': value_class(value)}
        if extra:
            sig.update(extra)
        full = (detail or {}).get('via', '')
        if ':' in full:
            # the carrying element's complex type (a defect of the carrier, e.g. the xlink attribute table, is not the simple type's)
            carrier = full.split(':', 1)[1].split('/@')[0]
            if carrier in ref.ELS and ref.eltype(carrier) in ('link', 'opus', 'part-link'):
                sig['carrier_type'] = ref.eltype(carrier)
        viol.append({'sig': sig, 'case': {'stype': stype, 'via': via, 'value': repr(value)}, 'detail': detail or {}})

    if shard['slice'] == 'no-text':
        # (c) element-only and empty types must refuse non-empty text
        for cn, cls in sorted(lib.CLASSES.items()):
            t = lib.xsd_type_name(cls)
            if t not in ref.ALL or ref.simple_base(t) is not None:
                continue
            for val in ('hello', 5, 'x y'):
                evals += 1
                nontriv += 1
                r = lib.call(cls, val, xsd_check=True)
                if r[0] == 'ok':
                    e = r[1]
                    e.xsd_check = False
                    s = lib.call(e.to_string)
                    txt = (ET.fromstring(s[1]).text or '') if s[0] == 'ok' else None
                    viol.append({'sig': {'kind': 'text-accepted-by-type-without-character-content',
                                         'content': 'element-only' if t in ref.DFAS else 'empty', 'via': 'constructor'},
                                 'case': {'class': cn, 'value': repr(val)}, 'detail': {'type': t, 'emitted': txt}})
                e2 = lib.call(cls, xsd_check=True)
                if e2[0] == 'ok':
                    evals += 1
                    r2 = lib.call(setattr, e2[1], 'value_', val)
                    if r2[0] == 'ok':
                        viol.append({'sig': {'kind': 'text-accepted-by-type-without-character-content',
                                             'content': 'element-only' if t in ref.DFAS else 'empty', 'via': 'value_'},
                                     'case': {'class': cn, 'value': repr(val)}, 'detail': {'type': t}})
            c['classes_without_character_content'] += 1
        return {'evaluations': evals, 'distinct_nontrivial': nontriv, 'violations': viol,
                'samples': [{'class': 'XMLPitch', 'value': 'hello'}], 'counters': dict(c), 'exhaustive': True}

    whole = isinstance(shard['slice'], str)
    if whole:
        types = all_types()
        if shard['slice'] == 'all-reversed':
            types = types[::-1]
    else:
        types = [t for i, t in enumerate(all_types()) if i % NSHARDS == shard['slice']]
    forms = pool()
    els, attrs = carriers()
    if whole:
        els, attrs = {}, {}          # type classes only
    for t in types:
        cname = 'XSDSimpleType' + lib._cap(t.split(':')[-1])
        tcls = getattr(xs_, cname, None)
        if tcls is None:
            viol.append({'sig': {'kind': 'simple-type-class-missing', 'stype': t}, 'case': {'stype': t}, 'detail': {}})
            continue
        routes = [('type', lambda pv, _c=tcls: _c(pv), None)]
        ecarriers = els.get(t, [])
        acarriers = attrs.get(t, [])
        if tier == 'quick':
            ecarriers, acarriers = ecarriers[:1], acarriers[:1]
        for n in ecarriers:
            ecls = lib.cls_of_element(n)
            if ecls is not None:
                routes.append(('element:' + n, (lambda pv, _c=ecls: _c(pv)), ('#text',)))
        for n, an in acarriers:
            ecls = lib.cls_of_element(n)
            if ecls is None:
                continue
            dv = lib.default_value(ecls)

            def mk(pv, _c=ecls, _an=an, _dv=dv):
                kw = {_an.replace('-', '_'): pv}
                return _c(_dv, xsd_check=False, **kw) if _dv is not None else _c(xsd_check=False, **kw)
            routes.append(('attribute:%s/@%s' % (n, an), mk, ('@', an)))
        c['routes'] += len(routes)
        # re-assignment on an existing element: a refused value must not end up in the emitted text
        reassign = []
        for n in ecarriers:
            ecls = lib.cls_of_element(n)
            dv0 = lib.default_value(ecls) if ecls is not None else None
            if ecls is not None and dv0 is not None:
                reassign.append((n, ecls, dv0))
        for n, ecls, dv0 in reassign:
            for lex in forms[::3] + ['@@bad@@']:
                for pv in lib.py_candidates(lex) + ([-987654321.5] if lex == '@@bad@@' else []):
                    r0 = lib.call(ecls, dv0, xsd_check=False)
                    if r0[0] == 'exc':
                        continue
                    e = r0[1]
                    rr = lib.call(setattr, e, 'value_', pv)
                    evals += 1
                    s_ = lib.call(e.to_string)
                    if s_[0] != 'ok':
                        continue
                    emitted = ET.fromstring(s_[1]).text or ''
                    if not ref.valid(t, emitted):
                        nontriv += 1
                        if rr[0] == 'exc':
                            v('refused-value-emitted', t, 'element-reassign', pv, {'emitted': emitted, 'via': 'element-reassign:' + n})
                        else:
                            v('accepted-emits-invalid', t, 'element', pv, {'emitted': emitted, 'via': 'element-reassign:' + n})
        for lex in forms:
            rv = ref.valid(t, lex)
            cands = lib.py_candidates(lex)
            for via, fn, where in routes:
                any_ok = False
                for pv in cands:
                    evals += 1
                    r = lib.call(fn, pv)
                    if r[0] == 'exc':
                        cl = lib.classify_exception(r[1])
                        if cl != 'documented':
                            v('internal-error', t, via.split(':')[0], pv, {'exc': type(r[1]).__name__, 'via': via,
                                                                           'site': lib.raise_site(r[1])},
                              {'exc': type(r[1]).__name__})
                        continue
                    any_ok = True
                    nontriv += 1
                    emitted = str(pv)
                    if where is not None:
                        e = r[1]
                        e.xsd_check = False
                        s = lib.call(e.to_string)
                        if s[0] == 'ok':
                            root = ET.fromstring(s[1])
                            emitted = (root.text or '') if where[0] == '#text' else root.attrib.get(where[1])
                            if emitted is None:
                                emitted = str(pv)
                    if not ref.valid(t, emitted):
                        v('accepted-emits-invalid', t, via.split(':')[0], pv, {'emitted': emitted, 'via': via})
                    if len(samples) < 3 and rv:
                        samples.append({'stype': t, 'via': via, 'value': repr(pv), 'emitted': emitted})
                if rv and not any_ok and lex == ref.collapse(lex) if ref.wsof(t) == 'collapse' else (rv and not any_ok):
                    nontriv += 1
                    v('rejects-valid', t, via.split(':')[0], lex, {'via': via, 'tried': [repr(x) for x in cands]})
        # float / bool / non-finite battery
        for pv in BATTERY:
            for via, fn, where in routes:
                evals += 1
                r = lib.call(fn, pv)
                if r[0] == 'exc':
                    cl = lib.classify_exception(r[1])
                    if cl != 'documented':
                        v('internal-error', t, via.split(':')[0], pv, {'exc': type(r[1]).__name__, 'via': via},
                          {'exc': type(r[1]).__name__})
                    continue
                nontriv += 1
                emitted = str(pv)
                if where is not None:
                    e = r[1]
                    e.xsd_check = False
                    s = lib.call(e.to_string)
                    if s[0] == 'ok':
                        root = ET.fromstring(s[1])
                        emitted = (root.text or '') if where[0] == '#text' else root.attrib.get(where[1], str(pv))
                if not ref.valid(t, emitted):
                    v('accepted-emits-invalid', t, via.split(':')[0], pv, {'emitted': emitted, 'via': via})
        c['types'] += 1
        c['forms'] += len(forms)
    return {'evaluations': evals, 'distinct_nontrivial': nontriv, 'violations': viol, 'samples': samples,
            'counters': dict(c, stdio_events=len(lib.STDIO_EVENTS)), 'exhaustive': False}


def replay_case(rp):
    from .. import lib
    import musicxml.xsd.xsdsimpletype as xs_
    case = rp['case']
    if 'class' in case:
        r = lib.call(lib.CLASSES[case['class']], eval(case['value']))
        return {'violated': r[0] == 'ok'}
    t = case['stype']
    tcls = getattr(xs_, 'XSDSimpleType' + lib._cap(t.split(':')[-1]))
    val = eval(case['value'], {'nan': float('nan'), 'inf': float('inf')})
    r = lib.call(tcls, val)
    out = {'accepted': r[0] == 'ok', 'reference_says_valid_text': ref.valid(t, str(val))}
    kind = rp['sig']['kind']
    out['violated'] = (kind == 'accepted-emits-invalid' and out['accepted'] and not out['reference_says_valid_text']) or \
                      (kind == 'rejects-valid' and not out['accepted'])
    return out
